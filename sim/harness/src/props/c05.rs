//! C05 -- a (re)joining node resynchronises to exactly the primary's data.
use crate::common::*;
use crate::kv::*;
use crate::props::c04::dump_node;
use crate::world::*;
use nundb::bo::Databases;
use nundb_verif_rt::kernel::{self, with, Rng};
use nundb_verif_rt::sim::{run_sim, SimConfig};
use nundb_verif_rt::stdx::sync::Arc;
use serde::{Deserialize, Serialize};
use serde_json::{json, Value as Json};

pub struct C05;

#[derive(Clone, Debug, Serialize, Deserialize, PartialEq)]
pub enum Op {
    Set { db: usize, key: String, val: String },
    Remove { db: usize, key: String },
    Inc { db: usize, key: String, by: i32 },
    CreateDb { db: usize },
    /// snapshot the database on the primary (and, through replication, on the secondary if it is up)
    Snapshot { db: usize },
}

#[derive(Clone, Debug, Serialize, Deserialize, PartialEq)]
pub enum Departure {
    /// the second node has never been up: it joins with an empty disk
    NeverUp,
    Kill,
    Sigint,
}

#[derive(Clone, Debug, Serialize, Deserialize)]
pub struct Program {
    pub strategies: Vec<String>,
    pub before: Vec<Op>,
    pub departure: Departure,
    pub away: Vec<Op>,
    pub during: Vec<Op>,
    /// false: the writer spreads its writes over the first second of the join; true: it writes at the
    /// instant the primary can read the joiner's `replicate-since` request (the catch-up computation)
    #[serde(default)]
    pub during_at_sync: bool,
    /// number of extra keys written while the node is away (a catch-up longer than the 100-message
    /// channel of the replication link)
    #[serde(default)]
    pub bulk: u32,
    /// the nodes bind their TCP listeners to private addresses and announce public ones (`--tcp-address` differs
    /// from `--external-address`)
    #[serde(default)]
    pub split_addr: bool,
}

const DBN: [&str; 3] = ["d", "e", "f"];
const KEYS: [&str; 3] = ["ka", "kb", "kc"];
const VALS: [&str; 12] = ["one", "hello big world", "10 apples", "", "42", "a b", "ünï", "x", "7", "two words", "<Empty>", "<Empty>"];

fn val_shape(v: &str) -> &'static str {
    if v == "<Empty>" {
        // a legal value that reads like the text nun-db prints for an absent key
        "empty-literal"
    } else if v.is_empty() {
        "empty"
    } else if v.split(' ').next().map(|w| w.parse::<i32>().is_ok()).unwrap_or(false) {
        if v.contains(' ') {
            "numeric-first-word"
        } else {
            "numeric"
        }
    } else if v.contains(' ') {
        "multi-word"
    } else {
        "single-word"
    }
}

fn gen_ops(rng: &mut Rng, n: usize, ndbs: usize, created: &mut Vec<bool>, allow_create: bool) -> Vec<Op> {
    let mut v = Vec::new();
    for _ in 0..n {
        let db = rng.below(ndbs as u64) as usize;
        if !created[db] {
            if allow_create {
                created[db] = true;
                v.push(Op::CreateDb { db });
            }
            continue;
        }
        let key = KEYS[rng.below(3) as usize].to_string();
        v.push(match rng.below(10) {
            0..=5 => Op::Set { db, key, val: VALS[rng.below(VALS.len() as u64) as usize].to_string() },
            6 | 7 => Op::Remove { db, key },
            8 => Op::Inc { db, key: "n".into(), by: rng.range(1, 5) as i32 },
            _ => Op::Snapshot { db },
        });
    }
    v
}

fn gen(rng: &mut Rng) -> Program {
    let ndbs = rng.range(1, 3) as usize;
    let strategies: Vec<String> = (0..ndbs).map(|_| ["none", "newer", "arbiter"][rng.below(3) as usize].to_string()).collect();
    let mut created = vec![false; ndbs];
    created[0] = true;
    let departure = match rng.below(3) {
        0 => Departure::NeverUp,
        1 => Departure::Kill,
        _ => Departure::Sigint,
    };
    let mut before = vec![Op::CreateDb { db: 0 }];
    let nb = rng.range(0, 5) as usize;
    before.extend(gen_ops(rng, nb, ndbs, &mut created, true));
    if departure != Departure::NeverUp && rng.chance(2, 3) {
        // give the departing node something on disk
        before.push(Op::Snapshot { db: 0 });
    }
    let na = rng.range(1, 6) as usize;
    let away = gen_ops(rng, na, ndbs, &mut created, true);
    let nd = rng.range(0, 3) as usize;
    let during = gen_ops(rng, nd, ndbs, &mut created, false);
    let during_at_sync = rng.chance(1, 2);
    let (mut before, mut during) = (before, during);
    if during_at_sync && rng.chance(1, 2) {
        // a write that races the catch-up computation of a key the catch-up certainly carries: the key
        // exists (single-word value) before the node leaves and is removed or overwritten at the very
        // instant of the synchronisation
        // (the value keeps a recognisable shape through the catch-up format of the pinned tree: its
        //  first word is taken for the version, the rest arrives)
        before.push(Op::Set { db: 0, key: "kc".into(), val: "7 apples and pears".into() });
        during = vec![if rng.chance(2, 3) { Op::Remove { db: 0, key: "kc".into() } } else { Op::Set { db: 0, key: "kc".into(), val: "8 plums and figs".into() } }];
    }
    let bulk = if rng.chance(1, 12) { rng.range(90, 260) as u32 } else { 0 };
    let split_addr = rng.chance(1, 4);
    Program { strategies, before, departure, away, during, during_at_sync, bulk, split_addr }
}

struct Outcome {
    setup: Result<(), String>,
    violations: Vec<Violation>,
    full_sync: bool,
    compared_keys: u64,
}

fn apply(s: &mut Session, cur: &mut Option<usize>, op: &Op, strategies: &[String]) {
    let sel = |s: &mut Session, cur: &mut Option<usize>, db: usize| {
        if *cur != Some(db) {
            s.exec(&format!("use-db {} tok{}", DBN[db], db));
            *cur = Some(db);
        }
    };
    match op {
        Op::CreateDb { db } => {
            s.exec(&format!("create-db {} tok{} {}", DBN[*db], db, strategies[*db]));
        }
        Op::Set { db, key, val } => {
            sel(s, cur, *db);
            s.exec(&format!("set {} {}", key, val));
        }
        Op::Remove { db, key } => {
            sel(s, cur, *db);
            s.exec(&format!("remove {}", key));
        }
        Op::Inc { db, key, by } => {
            sel(s, cur, *db);
            s.exec(&format!("increment {} {}", key, by));
        }
        Op::Snapshot { db } => {
            sel(s, cur, *db);
            s.exec("snapshot false");
        }
    }
}

fn execute(prog: Program) -> Outcome {
    let mut out = Outcome { setup: Err("boot".into()), violations: vec![], full_sync: false, compared_keys: 0 };
    let w = World::new_split(2, prog.split_addr);
    maybe_segment(3, true);
    let addrs = w.all_tcp();
    w.boot(0, &addrs);
    if !w.wait_primary(0, 5_000) {
        out.setup = Err("setup_unstable".into());
        return out;
    }
    if prog.departure != Departure::NeverUp {
        w.boot(1, &addrs);
        let ok = wait_cond(12_000, 50, || w.agreed_primary() == Ok(0)) && w.settle(300, 3_000);
        if !ok || w.agreed_primary() != Ok(0) {
            out.setup = Err("setup_unstable".into());
            return out;
        }
    }
    let d0 = match w.dbs(0) {
        Some(d) => d,
        None => return out,
    };
    let mut admin = Session::admin(&d0);
    let mut cur = None;
    for op in prog.before.iter() {
        apply(&mut admin, &mut cur, op, &prog.strategies);
        if matches!(op, Op::Snapshot { .. }) {
            sleep_ms(5);
            w.declutter_tick(0, 10_000);
            if w.alive(1) {
                w.declutter_tick(1, 10_000);
            }
        }
    }
    if !w.settle(300, 5_000) {
        out.setup = Err("setup_unstable".into());
        return out;
    }
    // what the departing node holds (a full synchronisation later lands on top of whatever of this
    // reached its disk)
    let joiner_had: std::collections::BTreeSet<(String, String)> = match (prog.departure.clone(), w.dbs(1)) {
        (Departure::NeverUp, _) | (_, None) => Default::default(),
        (_, Some(d1)) => dump_node(&d1).iter().flat_map(|(db, (_, keys))| keys.iter().filter(|(_, e)| !e.deleted).map(move |(k, _)| (db.clone(), k.clone()))).collect(),
    };
    match prog.departure {
        Departure::NeverUp => {}
        Departure::Kill => w.kill(1),
        Departure::Sigint => {
            w.sigint(1);
            if !w.wait_exit(1, 20_000) {
                out.setup = Err("setup_unstable".into());
                return out;
            }
        }
    }
    // the primary notices the departure (leave processing) before the away phase
    sleep_ms(50);
    if !w.settle(300, 6_000) || w.role(0) != Some(nundb::bo::ClusterRole::Primary) {
        out.setup = Err("setup_unstable".into());
        return out;
    }
    for op in prog.away.iter() {
        apply(&mut admin, &mut cur, op, &prog.strategies);
        if matches!(op, Op::Snapshot { .. }) {
            sleep_ms(5);
            w.declutter_tick(0, 10_000);
        }
    }
    if prog.bulk > 0 {
        if cur != Some(0) {
            admin.exec(&format!("use-db {} tok0", DBN[0]));
            cur = Some(0);
        }
        for j in 0..prog.bulk {
            // (a value whose first word is a number survives the catch-up format of the pinned tree as
            //  a present key; only the presence of these keys is judged)
            admin.exec(&format!("set bulk{} 1 b{}", j, j));
        }
    }
    sleep_ms(20);
    out.setup = Ok(());
    let full_before = with(|k| k.stats.probes.get("full_sync").copied().unwrap_or(0));
    // (re)join, with writes on the primary racing the synchronisation
    let at_sync = prog.during_at_sync;
    if at_sync {
        with(|k| {
            k.net.line_log = Some(Vec::new());
            // cooperative fault point: the thread that computes the catch-up may be descheduled right
            // after it copied a database / read an oplog record (in reality the computation takes long,
            // in the simulator it takes no time unless somebody stalls it)
            let (pm, max) = match std::env::var("NUNSIM_C05_STALL").ok().and_then(|v| v.split_once(',').map(|(a, b)| (a.parse().unwrap_or(500), b.parse().unwrap_or(800)))) {
                Some(x) => x,
                None => (500u32, 800u32),
            };
            k.stall_probes = vec![("full_sync_db_done".to_string(), pm, max), ("catch_up_record".to_string(), pm * 3 / 10, max)];
        });
    }
    w.boot(1, &addrs);
    let during = prog.during.clone();
    let strategies = prog.strategies.clone();
    let d0c = d0.clone();
    let h = spawn_on_node(&w, 0, "writer-during-sync", move || {
        let mut s = Session::admin(&d0c);
        let mut cur = None;
        if at_sync {
            // become runnable at the instant the primary can read the joiner's catch-up request: the
            // writes then interleave (at lock granularity) with the catch-up computation itself
            let deadline = kernel::now() + 20_000 * kernel::MS;
            kernel::wait(
                kernel::Wait::Cond(std::rc::Rc::new(move |k: &kernel::Kernel| {
                    if k.now >= deadline {
                        return kernel::Ready::Yes;
                    }
                    let hit = k.net.line_log.as_ref().and_then(|l| l.iter().find(|r| r.to == Some(0) && r.line.starts_with("replicate-since")).map(|r| r.deliver_at));
                    match hit {
                        Some(t) if t <= k.now => kernel::Ready::Yes,
                        Some(t) => kernel::Ready::At(t),
                        None => kernel::Ready::At(deadline),
                    }
                })),
                false,
            );
            with(|k| k.fault("write_at_catch_up"));
        }
        for op in during.iter() {
            if !at_sync {
                // spread the writes over the first second of the join
                sleep_ms(300);
            }
            apply(&mut s, &mut cur, op, &strategies);
        }
    });
    let _ = h.join();
    let joined = wait_cond(15_000, 50, || w.agreed_primary() == Ok(0));
    if !joined || !w.settle(400, 8_000) {
        // the join itself failing is an election matter (C07) unless the node crashed
        let panics = with(|k| k.panics.clone());
        // the first panic is the cause, later ones are usually its consequences
        if let Some(p) = panics.first() {
            out.violations.push(Violation::new(
                "sync-crashed",
                p.location.rsplit('/').next().unwrap_or("?").to_string(),
                format!("{} at {} (node {:?}); all panics: {:?}", p.message, p.location, p.node, panics.iter().map(|q| format!("{} @ {}", q.message.chars().take(60).collect::<String>(), q.location)).collect::<Vec<_>>()),
            ));
            return out;
        }
        out.setup = Err("setup_unstable".into());
        return out;
    }
    out.full_sync = with(|k| k.stats.probes.get("full_sync").copied().unwrap_or(0)) > full_before;
    let mode = if out.full_sync { "full-sync" } else { "incremental-sync" };
    let d1 = match w.dbs(1) {
        Some(d) => d,
        None => return out,
    };
    let pd = dump_node(&d0);
    let od = dump_node(&d1);
    let during_keys: Vec<(usize, String)> = prog
        .during
        .iter()
        .filter_map(|o| match o {
            Op::Set { db, key, .. } | Op::Remove { db, key } | Op::Inc { db, key, .. } => Some((*db, key.clone())),
            _ => None,
        })
        .collect();
    let mut bulk_missing: Vec<String> = Vec::new();
    let away_keys: Vec<(usize, String)> = prog
        .away
        .iter()
        .filter_map(|o| match o {
            Op::Set { db, key, .. } | Op::Remove { db, key } | Op::Inc { db, key, .. } => Some((*db, key.clone())),
            _ => None,
        })
        .collect();
    for (db, (strat, keys)) in pd.iter() {
        if db == "$admin" {
            continue;
        }
        let dbi = DBN.iter().position(|n| n == db);
        let (ostrat, okeys) = match od.get(db) {
            Some(x) => x,
            None => {
                out.violations.push(Violation::new("missing-database", mode.to_string(), format!("{}: database {} of the primary does not exist on the joined node", mode, db)));
                continue;
            }
        };
        if strat != ostrat {
            out.violations.push(Violation::new("strategy-lost", format!("{}:{}", mode, strat), format!("{}: database {} has strategy {} on the primary, {} on the joined node", mode, db, strat, ostrat)));
        }
        let mut all: Vec<&String> = keys.keys().chain(okeys.keys()).collect();
        all.sort();
        all.dedup();
        for k in all {
            if k == "$connections" || k.starts_with("$conflicts") {
                continue;
            }
            out.compared_keys += 1;
            let a = keys.get(k).filter(|e| !e.deleted);
            let b = okeys.get(k).filter(|e| !e.deleted);
            if k.starts_with("bulk") {
                if a.is_some() && b.is_none() {
                    bulk_missing.push(k.clone());
                }
                continue;
            }
            let written_during = dbi.map(|i| during_keys.iter().any(|(d, kk)| *d == i && kk == k)).unwrap_or(false);
            let written_away = dbi.map(|i| away_keys.iter().any(|(d, kk)| *d == i && kk == k)).unwrap_or(false);
            let phase = if written_during {
                "written-during-sync"
            } else if written_away {
                "written-while-away"
            } else {
                "written-before-departure"
            };
            match (a, b) {
                (None, None) => {}
                (Some(a), None) => out.violations.push(Violation::new(
                    if written_during { "lost-write-during-sync" } else { "missing-key" },
                    format!("{}:{}:{}", mode, val_shape(&a.value), phase),
                    format!("{}: {}/{} = {:?} v{} on the primary, absent on the joined node", mode, db, k, a.value, a.version),
                )),
                (None, Some(b)) => out.violations.push(Violation::new(
                    "removed-key-alive",
                    format!("{}:{}:{}:{}", mode, val_shape(&b.value), phase, if joiner_had.contains(&(db.clone(), k.clone())) { "joiner-had-it" } else { "joiner-new" }),
                    format!("{}: {}/{} is removed on the primary, the joined node holds {:?} v{}", mode, db, k, b.value, b.version),
                )),
                (Some(a), Some(b)) => {
                    if a.value != b.value {
                        out.violations.push(Violation::new(
                            if k == "$$token" { "token-wrong" } else { "value-mangled" },
                            format!("{}:{}:{}", mode, val_shape(&a.value), phase),
                            format!("{}: {}/{} = {:?} on the primary, {:?} on the joined node", mode, db, k, a.value, b.value),
                        ));
                    } else if a.version != b.version {
                        out.violations.push(Violation::new(
                            "version-wrong",
                            format!("{}:{}:{}", mode, val_shape(&a.value), phase),
                            format!("{}: {}/{} = {:?} at version {} on the primary, version {} on the joined node", mode, db, k, a.value, a.version, b.version),
                        ));
                    }
                }
            }
        }
    }
    if !bulk_missing.is_empty() {
        out.violations.push(Violation::new(
            "catch-up-truncated",
            format!("{}:{}", mode, if bulk_missing.len() as u32 == prog.bulk { "all" } else { "partial" }),
            format!("{}: {} of the {} keys written while the node was away are absent on the joined node (first: {})", mode, bulk_missing.len(), prog.bulk, bulk_missing[0]),
        ));
    }
    // one report per class is enough
    let mut seen = std::collections::BTreeSet::new();
    out.violations.retain(|v| seen.insert(v.sig()));
    out
}

// ------------------------------------------------------------------------------------------------
// scenario `fresh-join`: a node that has never run joins a primary whose history stays clear of the
// recorded findings (no removes, values whose first word is a number or that are single words, the
// joiner has no oplog of its own to replay); judged at the level of databases and key sets only
// ------------------------------------------------------------------------------------------------

#[derive(Clone, Debug, Serialize, Deserialize, PartialEq)]
pub enum FOp {
    Set { db: usize, key: String, val: String },
    Inc { db: usize, key: String, by: i32 },
    CreateUser { db: usize, user: String },
    SetPermissions { db: usize, user: String, perms: String },
}

#[derive(Clone, Debug, Serialize, Deserialize)]
pub struct Fresh {
    pub strategies: Vec<String>,
    pub ops: Vec<FOp>,
    /// Some(dbs): these databases are snapshotted, then the primary is killed and restarted before
    /// the new node joins (its oplog starts empty again; databases never snapshotted are gone)
    pub primary_restart: Option<Vec<usize>>,
    /// writes of new keys on the primary while the node synchronises
    pub during: Vec<FOp>,
    /// `--tcp-address` differs from `--external-address` on every node
    #[serde(default)]
    pub split_addr: bool,
}

fn gen_fresh(rng: &mut Rng) -> Fresh {
    let ndbs = rng.range(1, 3) as usize;
    let strategies: Vec<String> = (0..ndbs).map(|_| ["none", "newer", "arbiter"][rng.below(3) as usize].to_string()).collect();
    let n = rng.range(1, 8) as usize;
    let mut uniq = 0;
    let mut one = |rng: &mut Rng, prefix: &str| -> FOp {
        let db = rng.below(ndbs as u64) as usize;
        uniq += 1;
        match rng.below(8) {
            0..=3 => FOp::Set { db, key: format!("{}{}", prefix, rng.range(1, 4)), val: if rng.chance(1, 2) { format!("{} word{}", rng.range(1, 9), uniq) } else { format!("w{}", uniq) } },
            4 => FOp::Inc { db, key: "n".into(), by: rng.range(1, 5) as i32 },
            5 | 6 => FOp::CreateUser { db, user: format!("u{}", rng.range(1, 2)) },
            _ => FOp::SetPermissions { db, user: format!("u{}", rng.range(1, 2)), perms: ["r *", "rw k*"][rng.below(2) as usize].to_string() },
        }
    };
    let ops: Vec<FOp> = (0..n).map(|_| one(rng, "k")).collect();
    let primary_restart = if rng.chance(1, 3) { Some((0..ndbs).filter(|_| rng.chance(2, 3)).collect()) } else { None };
    let nd = rng.range(0, 2) as usize;
    // (no increment while the node joins: one accepted while the join election runs is a recorded finding)
    let during: Vec<FOp> = (0..nd).map(|_| one(rng, "late")).filter(|o| !matches!(o, FOp::Inc { .. })).collect();
    let split_addr = rng.chance(1, 4);
    Fresh { strategies, ops, primary_restart, during, split_addr }
}

fn apply_fresh(s: &mut Session, cur: &mut Option<usize>, op: &FOp) {
    let db = match op {
        FOp::Set { db, .. } | FOp::Inc { db, .. } | FOp::CreateUser { db, .. } | FOp::SetPermissions { db, .. } => *db,
    };
    if *cur != Some(db) {
        s.exec(&format!("use-db {} tok{}", DBN[db], db));
        *cur = Some(db);
    }
    match op {
        FOp::Set { key, val, .. } => s.exec(&format!("set {} {}", key, val)),
        FOp::Inc { key, by, .. } => s.exec(&format!("increment {} {}", key, by)),
        FOp::CreateUser { user, .. } => s.exec(&format!("create-user {} pw{}", user, user)),
        FOp::SetPermissions { user, perms, .. } => s.exec(&format!("set-permissions {} {}", user, perms)),
    };
}

fn key_class(k: &str) -> &'static str {
    if k.starts_with("$$user") {
        "user"
    } else if k.starts_with("$$permission") {
        "permission"
    } else if k.starts_with("$$") {
        "secure"
    } else if k == "n" {
        "counter"
    } else if k.starts_with("late") {
        "written-during-sync"
    } else {
        "plain"
    }
}

fn execute_fresh(prog: Fresh) -> Outcome {
    let mut out = Outcome { setup: Err("boot".into()), violations: vec![], full_sync: true, compared_keys: 0 };
    let w = World::new_split(2, prog.split_addr);
    maybe_segment(3, true);
    let addrs = w.all_tcp();
    w.boot(0, &addrs);
    if !w.wait_primary(0, 5_000) {
        out.setup = Err("setup_unstable".into());
        return out;
    }
    let mut d0 = match w.dbs(0) {
        Some(d) => d,
        None => return out,
    };
    let mut admin = Session::admin(&d0);
    for (i, st) in prog.strategies.iter().enumerate() {
        if admin.exec(&format!("create-db {} tok{} {}", DBN[i], i, st)).resp.is_err() {
            return out;
        }
    }
    let mut cur = None;
    for op in prog.ops.iter() {
        apply_fresh(&mut admin, &mut cur, op);
    }
    if let Some(snap) = prog.primary_restart.as_ref() {
        for db in snap.iter() {
            admin.exec(&format!("use-db {} tok{}", DBN[*db], db));
            admin.exec("snapshot false");
        }
        if !snap.is_empty() && !w.declutter_tick(0, 10_000) {
            out.setup = Err("setup_unstable".into());
            return out;
        }
        sleep_ms(5);
        with(|k| k.fault("primary_restart"));
        w.kill(0);
        w.boot(0, &addrs);
        if !w.wait_primary(0, 8_000) {
            out.setup = Err("setup_unstable".into());
            return out;
        }
        d0 = match w.dbs(0) {
            Some(d) => d,
            None => return out,
        };
        sleep_ms(100);
    }
    out.setup = Ok(());
    // the new node
    with(|k| k.net.line_log = Some(Vec::new()));
    w.boot(1, &addrs);
    let during = prog.during.clone();
    let d0c = d0.clone();
    let existing: Vec<String> = dump_node(&d0).keys().cloned().collect();
    let h = spawn_on_node(&w, 0, "writer-during-sync", move || {
        let mut s = Session::admin(&d0c);
        let mut cur = None;
        for op in during.iter() {
            sleep_ms(300);
            // only databases that still exist (a restarted primary lost the ones never snapshotted)
            let db = match op {
                FOp::Set { db, .. } | FOp::Inc { db, .. } | FOp::CreateUser { db, .. } | FOp::SetPermissions { db, .. } => *db,
            };
            if existing.iter().any(|n| n == DBN[db]) {
                apply_fresh(&mut s, &mut cur, op);
            }
        }
    });
    let _ = h.join();
    let joined = wait_cond(15_000, 50, || w.agreed_primary() == Ok(0));
    if !joined || !w.settle(400, 8_000) {
        let panics = with(|k| k.panics.clone());
        if let Some(p) = panics.last() {
            out.violations.push(Violation::new("sync-crashed", format!("fresh-join:{}", p.location.rsplit('/').next().unwrap_or("?")), format!("{} at {} (node {:?})", p.message, p.location, p.node)));
            return out;
        }
        out.setup = Err("setup_unstable".into());
        return out;
    }
    let d1 = match w.dbs(1) {
        Some(d) => d,
        None => return out,
    };
    let pd = dump_node(&d0);
    let od = dump_node(&d1);
    // what the new node asked the primary for: everything (since 0), or -- the recorded self-link
    // finding: it replayed its own log to itself first -- only what is newer than a time it made up
    let asked: Vec<String> = with(|k| {
        k.net
            .line_log
            .as_ref()
            .map(|l| l.iter().filter(|r| r.to == Some(0) && r.from == Some(1) && r.line.starts_with("replicate-since")).map(|r| r.line.clone()).collect())
            .unwrap_or_default()
    });
    let asked_full = asked.iter().any(|l| l.trim_end().ends_with(" 0"));
    let restarted = match (prog.primary_restart.is_some(), asked_full) {
        (true, true) => "primary-restarted:asked-everything",
        (true, false) => "primary-restarted:asked-since",
        (false, true) => "primary-up:asked-everything",
        (false, false) => "primary-up:asked-since",
    };
    for (db, (_, keys)) in pd.iter() {
        if db == "$admin" {
            continue;
        }
        let okeys = match od.get(db) {
            Some(x) => &x.1,
            None => {
                out.violations.push(Violation::new("fresh-join-missing-database", restarted.to_string(), format!("database {} of the primary does not exist on the node that joined with an empty disk", db)));
                continue;
            }
        };
        let mut all: Vec<&String> = keys.keys().chain(okeys.keys()).collect();
        all.sort();
        all.dedup();
        for k in all {
            if k == "$connections" || k.starts_with("$conflicts") {
                continue;
            }
            out.compared_keys += 1;
            let a = keys.get(k).filter(|e| !e.deleted).is_some();
            let b = okeys.get(k).filter(|e| !e.deleted).is_some();
            if a && !b {
                out.violations.push(Violation::new("fresh-join-missing-key", format!("{}:{}", restarted, key_class(k)), format!("{}/{} exists on the primary, absent on the node that joined with an empty disk", db, k)));
            } else if !a && b {
                out.violations.push(Violation::new("fresh-join-extra-key", format!("{}:{}", restarted, key_class(k)), format!("{}/{} exists only on the node that joined", db, k)));
            }
        }
    }
    for db in od.keys() {
        if db != "$admin" && !pd.contains_key(db) {
            out.violations.push(Violation::new("fresh-join-extra-database", restarted.to_string(), format!("database {} exists only on the node that joined", db)));
        }
    }
    let mut seen = std::collections::BTreeSet::new();
    out.violations.retain(|v| seen.insert(v.sig()));
    out
}

impl Property for C05 {
    fn id(&self) -> &'static str {
        "C05"
    }
    fn scenarios(&self) -> Vec<(&'static str, u32)> {
        vec![("join", 3), ("fresh-join", 1)]
    }
    fn budget(&self) -> (u64, u64) {
        (4_000, 150_000)
    }
    fn rule(&self) -> &'static str {
        "a primary with a history of 1-10 operations of {set (values: single word, multi-word, numeric, numeric first word, empty, UTF-8), remove, increment, create-db (3 strategies), snapshot} over 1-3 databases, split into before-departure / while-away / during-sync parts (the during-sync writes are either spread over the first second of the join or issued at the very instant the primary can read the joiner's replicate-since request, so that they interleave with the catch-up computation; one history in twelve adds 90-260 keys while the node is away, a catch-up longer than the link's 100-message channel); the second node has never been up (empty disk), was killed, or was shut down by SIGINT (with or without a snapshot on its disk), then (re)joins through the real join / election / replicate-since protocol while a writer keeps writing on the primary; at quiescence the joined node's dump must equal the primary's for every database (token, strategy, every key's value, version, removed keys absent). Runs where the join itself does not settle are discarded unless a node panicked. Non-trivial: the join settled and at least one key was compared. distinct = distinct (program, task-switch sequence)."
    }
    fn components(&self) -> Json {
        json!({"real": ["start_sync_process / replicate-since", "get_pendding_opps_since (full and incremental)", "parse_replicate_command on the receiver", "oplog + last_op_time", "start_db restart path (oplog valid / discarded)", "join + election"],
               "simulated": ["TCP", "disk", "signals", "clock"], "stub": []})
    }
    fn worker_env(&self, _w: u64, _master: u64) -> Vec<(String, String)> {
        // debug-level log lines of the catch-up computation serve as fault points (see execute)
        // (a quarter of the workers with a small operation log each: the primary's log rotates while a node is away)
        let mut env = vec![("NUNSIM_LOG".to_string(), "debug".to_string())];
        match _w % 4 {
            1 => env.push(("NUN_MAX_OP_LOG_SIZE".to_string(), "2500".to_string())),
            3 => env.push(("NUN_MAX_OP_LOG_SIZE".to_string(), "10000".to_string())),
            _ => {}
        }
        env
    }
    fn run_one(&self, scenario: &str, ctx: &RunCtx) -> RunReport {
        let mut rng = Rng::new(ctx.seed);
        if scenario == "fresh-join" {
            let prog: Fresh = match &ctx.program {
                Some(p) => serde_json::from_value(p.clone()).expect("program"),
                None => gen_fresh(&mut rng),
            };
            let mut cfg = SimConfig::new(ctx.seed ^ 0xc05);
            cfg.policy = policy_for(Rng::new(ctx.seed ^ 0x9011c7).next_u64());
            cfg.trace = ctx.trace;
            cfg.max_steps = 8_000_000;
            let p2 = prog.clone();
            let outcome = run_sim(cfg, move || execute_fresh(p2));
            clear_registry();
            let mut rep = RunReport { seed: ctx.seed, scenario: scenario.to_string(), ..Default::default() };
            rep.program = serde_json::to_value(&prog).unwrap();
            rep.absorb_kernel(&outcome.kernel);
            let switch_hash = outcome.kernel.switch_hash;
            if let Some(p) = outcome.harness_panic {
                rep.harness_error = Some(p);
                return rep;
            }
            match outcome.result {
                Some(o) => match o.setup {
                    Ok(()) => {
                        rep.violations.extend(o.violations);
                        rep.nontrivial = o.compared_keys > 0;
                        rep.counters.insert("fresh_joins".into(), 1);
                        rep.counters.insert("keys_compared".into(), o.compared_keys);
                    }
                    Err(e) => rep.discarded = Some(e),
                },
                None => rep.discarded = Some("truncated".into()),
            }
            rep.case_hash = kernel::mix(hash_str(&rep.program.to_string()), switch_hash);
            return rep;
        }
        let prog: Program = match &ctx.program {
            Some(p) => serde_json::from_value(p.clone()).expect("program"),
            None => gen(&mut rng),
        };
        let mut cfg = SimConfig::new(ctx.seed ^ 0xc05);
        cfg.policy = policy_for(Rng::new(ctx.seed ^ 0x9011c7).next_u64());
        cfg.trace = ctx.trace;
        cfg.max_steps = 8_000_000;
        let p2 = prog.clone();
        let outcome = run_sim(cfg, move || execute(p2));
        clear_registry();
        let mut rep = RunReport { seed: ctx.seed, scenario: scenario.to_string(), ..Default::default() };
        rep.program = serde_json::to_value(&prog).unwrap();
        rep.absorb_kernel(&outcome.kernel);
        if let Some(p) = outcome.harness_panic {
            rep.harness_error = Some(p);
            return rep;
        }
        let out = match outcome.result {
            Some(o) => o,
            None => {
                rep.discarded = Some("truncated".into());
                return rep;
            }
        };
        if let Err(e) = out.setup {
            rep.discarded = Some(e);
            return rep;
        }
        rep.violations.extend(out.violations);
        rep.nontrivial = out.compared_keys > 0;
        rep.counters.insert(if out.full_sync { "full_syncs".into() } else { "incremental_syncs".into() }, 1);
        rep.counters.insert("keys_compared".into(), out.compared_keys);
        rep.case_hash = kernel::mix(hash_str(&rep.program.to_string()), outcome.kernel.switch_hash);
        rep
    }
    fn shrink(&self, _scenario: &str, program: &Json) -> Vec<Json> {
        let p: Program = match serde_json::from_value(program.clone()) {
            Ok(p) => p,
            Err(_) => return vec![],
        };
        let mut out = Vec::new();
        for i in 1..p.before.len() {
            let mut q = p.clone();
            q.before.remove(i);
            out.push(serde_json::to_value(&q).unwrap());
        }
        for i in 0..p.away.len() {
            let mut q = p.clone();
            q.away.remove(i);
            out.push(serde_json::to_value(&q).unwrap());
        }
        for i in 0..p.during.len() {
            let mut q = p.clone();
            q.during.remove(i);
            out.push(serde_json::to_value(&q).unwrap());
        }
        out
    }
}
