//! nunsim -- deterministic whole-program simulator for nun-db (see /verif/DESIGN.md).
#![allow(dead_code)]
#[path = "../../gen/src/bin/main.rs"]
#[allow(dead_code, unused_imports)]
mod nun_main;

/// Proxy for the `nundb` crate as seen by the included main.rs: identical except that
/// `create_init_dbs` also tells the harness which `Arc<Databases>` the node created.
pub mod nundb_proxy {
    pub use ::nundb::*;
    pub mod db_ops {
        pub use ::nundb::db_ops::*;
        use futures::channel::mpsc::Sender;
        use nundb_verif_rt::stdx::collections::HashMap;
        use nundb_verif_rt::stdx::sync::Arc;
        pub fn create_init_dbs(
            user: String,
            pwd: String,
            tcp_address: String,
            external_tcp_address: String,
            replication_supervisor_sender: Sender<String>,
            replication_sender: Sender<String>,
            keys_map: HashMap<String, u64>,
            is_oplog_valid: bool,
        ) -> Arc<::nundb::bo::Databases> {
            let d = ::nundb::db_ops::create_init_dbs(
                user,
                pwd,
                tcp_address,
                external_tcp_address,
                replication_supervisor_sender,
                replication_sender,
                keys_map,
                is_oplog_valid,
            );
            crate::world::register_dbs(&d);
            d
        }
    }
}

mod common;
mod driver;
mod kv;
mod props;
mod s3stub;
mod world;

fn main() {
    let args: Vec<String> = std::env::args().collect();
    let code = driver::main(&args[1..]);
    std::process::exit(code);
}
