use crate::common::Property;
pub mod c01;
pub mod c02;

pub fn all() -> Vec<&'static dyn Property> {
    vec![&c01::C01, &c02::C02]
}

pub fn by_id(id: &str) -> Option<&'static dyn Property> {
    all().into_iter().find(|p| p.id() == id)
}
