//! Simulation kernel: one per OS thread, owns simulated time, the PRNG, task metadata, wait
//! predicates, nodes (disk, clock skew, liveness), the network and the event log.  It never uses
//! shuttle primitives; blocking is expressed as wait-predicates evaluated by `SimScheduler`.
use std::cell::RefCell;
use std::collections::{BTreeMap, HashMap as StdHashMap};
use std::rc::Rc;
use std::sync::atomic::{AtomicBool, Ordering};
use std::sync::Arc;

use crate::disk::Disk;
use crate::net::Net;

pub const EPOCH_BASE_NS: u64 = 1_700_000_000_000_000_000;
pub const MS: u64 = 1_000_000;
pub const SEC: u64 = 1_000_000_000;

#[derive(Clone, Copy, Debug)]
pub struct Rng {
    s: [u64; 4],
}
impl Rng {
    pub fn new(seed: u64) -> Rng {
        let mut z = seed.wrapping_add(0x9E3779B97F4A7C15);
        let mut s = [0u64; 4];
        for i in 0..4 {
            z = z.wrapping_add(0x9E3779B97F4A7C15);
            let mut x = z;
            x = (x ^ (x >> 30)).wrapping_mul(0xBF58476D1CE4E5B9);
            x = (x ^ (x >> 27)).wrapping_mul(0x94D049BB133111EB);
            s[i] = x ^ (x >> 31);
        }
        Rng { s }
    }
    pub fn next_u64(&mut self) -> u64 {
        let result = self.s[1].wrapping_mul(5).rotate_left(7).wrapping_mul(9);
        let t = self.s[1] << 17;
        self.s[2] ^= self.s[0];
        self.s[3] ^= self.s[1];
        self.s[1] ^= self.s[2];
        self.s[0] ^= self.s[3];
        self.s[2] ^= t;
        self.s[3] = self.s[3].rotate_left(45);
        result
    }
    pub fn below(&mut self, n: u64) -> u64 {
        if n == 0 {
            0
        } else {
            self.next_u64() % n
        }
    }
    pub fn range(&mut self, lo: u64, hi_incl: u64) -> u64 {
        lo + self.below(hi_incl - lo + 1)
    }
    pub fn chance(&mut self, num: u64, den: u64) -> bool {
        self.below(den) < num
    }
    pub fn pick<'a, T>(&mut self, v: &'a [T]) -> &'a T {
        &v[self.below(v.len() as u64) as usize]
    }
    pub fn fork(&mut self) -> Rng {
        Rng::new(self.next_u64())
    }
    pub fn shuffle<T>(&mut self, v: &mut [T]) {
        for i in (1..v.len()).rev() {
            let j = self.below(i as u64 + 1) as usize;
            v.swap(i, j);
        }
    }
}

pub fn mix(h: u64, v: u64) -> u64 {
    let mut x = h ^ v.wrapping_mul(0x9E3779B97F4A7C15);
    x = (x ^ (x >> 32)).wrapping_mul(0xD6E8FEB86659FD93);
    x ^ (x >> 29)
}

#[derive(Clone, Debug, Default)]
pub struct TaskMeta {
    pub node: Option<u32>,
    pub gen: u32,
    pub name: String,
    /// ordinal of this task among tasks spawned inside its node generation
    pub ord: u32,
}

#[derive(Clone)]
pub enum Wait {
    Never,
    Until(u64),
    Flag(Arc<AtomicBool>),
    PipeReadable(usize),
    Accept(usize),
    Signal(u32),
    Kick(u32, u64),
    Any(Vec<Wait>),
    Cond(Rc<dyn Fn(&Kernel) -> Ready>),
}

#[derive(Clone, Copy, Debug, PartialEq)]
pub enum Ready {
    Yes,
    At(u64),
    No,
}

#[derive(Clone, Copy, Debug, PartialEq)]
pub enum Policy {
    Random,
    /// stay on the current task with probability p/256
    Sticky(u8),
    /// PCT-like: random priorities, `changes` priority change points spread over `horizon` steps
    Pct { changes: u32, horizon: u64 },
    /// random choice plus stalled tasks: with probability p/256 per step the task that just ran is
    /// not scheduled again for up to `max` steps (unless nothing else can run) -- a descheduled thread
    Stall { p: u8, max: u32 },
}

pub struct Node {
    pub name: String,
    pub alive: bool,
    pub gen: u32,
    pub booted: bool,
    pub skew_ns: i64,
    pub last_systime: u64,
    pub stall_until: u64,
    pub disk: Disk,
    pub sigint_pending: bool,
    pub declutter_kick: u32,
    pub exited: Option<i32>,
    /// crash when the disk mutation counter reaches .0; .1 = after applying the mutation
    pub crash_at: Option<(u64, bool)>,
    /// one-shot disk error: the next open-for-writing of a path containing this text fails (no space / too many
    /// open files), as a node task sees it
    pub fail_open: Option<String>,
    pub disk_mutations: u64,
    pub mutation_log: Option<Vec<(u64, String)>>,
    pub crashed_at: Option<(u64, String)>,
    pub task_ord: u32,
    pub coarse_clock_ns: u64,
}

#[derive(Clone, Debug)]
pub struct PanicRecord {
    pub node: Option<u32>,
    pub gen: u32,
    pub task: String,
    pub message: String,
    pub location: String,
    pub at_ns: u64,
}

#[derive(Default, Clone, Debug)]
pub struct Stats {
    pub steps: u64,
    pub switches: u64,
    pub time_jumps: u64,
    pub tasks_spawned: u64,
    pub disk_mutations: u64,
    pub bytes_sent: u64,
    pub lines_sent: u64,
    pub faults: BTreeMap<String, u64>,
    pub probes: BTreeMap<String, u64>,
}

pub struct Kernel {
    pub seed: u64,
    pub now: u64,
    pub rng: Rng,
    pub sched_rng: Rng,
    pub map_seed: u64,
    pub metas: Vec<Option<TaskMeta>>,
    pub waits: Vec<Option<Wait>>,
    pub io_interest: Vec<Vec<Wait>>,
    pub nodes: Vec<Node>,
    pub net: Net,
    pub policy: Policy,
    pub prio: Vec<u64>,
    /// step number until which each task stays descheduled (Policy::Stall and probe-triggered stalls)
    pub paused_until: Vec<u64>,
    /// cooperative fault points: when the named probe (a log line of the code under test) fires, the
    /// task that logged it is descheduled for up to `max` steps with probability `per_mille`/1000
    pub stall_probes: Vec<(String, u32, u32)>,
    /// simulated time until which each task stays descheduled (time-based stalls of Policy::Stall)
    pub stalled_until_time: Vec<u64>,
    pub pct_points: Vec<u64>,
    pub finished: bool,
    pub truncated: bool,
    pub stuck: bool,
    pub max_steps: u64,
    pub hash: u64,
    pub switch_hash: u64,
    pub last_task: usize,
    pub stats: Stats,
    pub panics: Vec<PanicRecord>,
    pub ctx_node: Option<u32>,
    pub trace: Option<Vec<String>>,
    pub no_preempt: Option<usize>,
    pub ext: StdHashMap<String, u64>,
    /// a node task that reads the wall clock can lose the CPU right after the read (the value is what nun-db
    /// orders operations by, and nothing else between the read and its use is a scheduling point)
    pub preempt_after_clock: bool,
    cands: Vec<usize>,
}

thread_local! {
    static K: RefCell<Option<Box<Kernel>>> = const { RefCell::new(None) };
    static LAST_PANIC: RefCell<Option<(String, String)>> = const { RefCell::new(None) };
}

pub fn install(k: Kernel) {
    K.with(|c| *c.borrow_mut() = Some(Box::new(k)));
}
pub fn uninstall() -> Option<Box<Kernel>> {
    K.with(|c| c.borrow_mut().take())
}
pub fn active() -> bool {
    K.with(|c| c.try_borrow().map(|b| b.is_some()).unwrap_or(true))
}
#[track_caller]
pub fn with<R>(f: impl FnOnce(&mut Kernel) -> R) -> R {
    K.with(|c| {
        let mut b = c.borrow_mut();
        let k = b.as_mut().expect("simulation kernel not installed");
        f(k)
    })
}
pub fn try_with<R>(f: impl FnOnce(&mut Kernel) -> R) -> Option<R> {
    K.with(|c| match c.try_borrow_mut() {
        Ok(mut b) => b.as_mut().map(|k| f(k)),
        Err(_) => None,
    })
}

pub fn set_last_panic(msg: String, loc: String) {
    LAST_PANIC.with(|c| *c.borrow_mut() = Some((msg, loc)));
}
pub fn take_last_panic() -> Option<(String, String)> {
    LAST_PANIC.with(|c| c.borrow_mut().take())
}

/// True while the execution is being torn down (suspended tasks are unwound and their
/// destructors run: facade calls made from destructors must then be inert).
pub fn tearing_down() -> bool {
    try_with(|k| k.finished).unwrap_or(true)
}

/// Task id of the running shuttle task.
pub fn me() -> usize {
    usize::from(shuttle::current::me())
}

impl Kernel {
    pub fn new(seed: u64) -> Kernel {
        let mut rng = Rng::new(seed);
        let sched_rng = rng.fork();
        let map_seed = rng.next_u64();
        Kernel {
            seed,
            now: EPOCH_BASE_NS,
            rng,
            sched_rng,
            map_seed,
            metas: Vec::new(),
            waits: Vec::new(),
            io_interest: Vec::new(),
            nodes: Vec::new(),
            net: Net::new(),
            policy: Policy::Random,
            prio: Vec::new(),
            paused_until: Vec::new(),
            stall_probes: Vec::new(),
            stalled_until_time: Vec::new(),
            pct_points: Vec::new(),
            finished: false,
            truncated: false,
            stuck: false,
            max_steps: 5_000_000,
            hash: seed,
            switch_hash: 0,
            last_task: usize::MAX,
            stats: Stats::default(),
            panics: Vec::new(),
            ctx_node: None,
            trace: None,
            no_preempt: None,
            ext: StdHashMap::new(),
            preempt_after_clock: false,
            cands: Vec::new(),
        }
    }

    pub fn set_policy(&mut self, p: Policy) {
        self.policy = p;
        if let Policy::Pct { changes, horizon } = p {
            self.pct_points = (0..changes).map(|_| self.sched_rng.below(horizon.max(1))).collect();
            self.pct_points.sort();
        }
    }

    fn ensure_task(&mut self, id: usize) {
        if self.metas.len() <= id {
            self.metas.resize(id + 1, None);
            self.waits.resize(id + 1, None);
            self.io_interest.resize(id + 1, Vec::new());
        }
    }

    pub fn set_meta(&mut self, id: usize, meta: TaskMeta) {
        self.ensure_task(id);
        self.metas[id] = Some(meta);
    }

    pub fn meta(&self, id: usize) -> Option<&TaskMeta> {
        self.metas.get(id).and_then(|m| m.as_ref())
    }

    /// Node whose context (disk, clock) applies to task `id`.
    pub fn node_of(&self, id: usize) -> Option<u32> {
        match self.meta(id).and_then(|m| m.node) {
            Some(n) => Some(n),
            None => self.ctx_node,
        }
    }

    pub fn add_node(&mut self, name: &str) -> u32 {
        self.nodes.push(Node {
            name: name.to_string(),
            alive: false,
            gen: 0,
            booted: false,
            skew_ns: 0,
            last_systime: 0,
            stall_until: 0,
            disk: Disk::new(),
            sigint_pending: false,
            declutter_kick: 0,
            exited: None,
            crash_at: None,
            fail_open: None,
            disk_mutations: 0,
            mutation_log: None,
            crashed_at: None,
            task_ord: 0,
            coarse_clock_ns: 0,
        });
        (self.nodes.len() - 1) as u32
    }

    /// Mark a node's current generation dead: its tasks never run again, its sockets close.
    pub fn kill_node(&mut self, n: u32) {
        let gen = {
            let node = &mut self.nodes[n as usize];
            if !node.alive {
                return;
            }
            node.alive = false;
            node.sigint_pending = false;
            node.gen
        };
        self.net.close_node(n, gen, self.now);
        self.trace_ev(|| format!("kill node {}", n));
    }

    /// Prepare a new generation (the caller then spawns the boot task with the returned gen).
    pub fn new_generation(&mut self, n: u32) -> u32 {
        let node = &mut self.nodes[n as usize];
        assert!(!node.alive, "restart of a live node");
        node.gen += 1;
        node.alive = true;
        node.booted = true;
        node.exited = None;
        node.crash_at = None;
        node.crashed_at = None;
        node.sigint_pending = false;
        node.stall_until = 0;
        node.task_ord = 0;
        node.gen
    }

    pub fn fault(&mut self, kind: &str) {
        *self.stats.faults.entry(kind.to_string()).or_insert(0) += 1;
    }
    pub fn probe(&mut self, kind: &str) {
        *self.stats.probes.entry(kind.to_string()).or_insert(0) += 1;
        if !self.stall_probes.is_empty() {
            let hit = self.stall_probes.iter().find(|(n, _, _)| n == kind).cloned();
            if let Some((_, per_mille, max)) = hit {
                if self.sched_rng.below(1000) < per_mille as u64 {
                    let c = self.last_task;
                    if c != usize::MAX {
                        if self.paused_until.len() <= c {
                            self.paused_until.resize(c + 1, 0);
                        }
                        self.paused_until[c] = self.stats.steps + 10 + self.sched_rng.below(max as u64);
                        self.fault("stall_at_probe");
                        if self.trace.is_some() {
                            let (until, steps) = (self.paused_until[c], self.stats.steps);
                            self.trace_ev(|| format!("stall task {} at probe {} from step {} until step {}", c, kind, steps, until));
                        }
                    }
                }
            }
        }
    }

    pub fn trace_ev(&mut self, f: impl FnOnce() -> String) {
        if let Some(t) = self.trace.as_mut() {
            let s = f();
            t.push(format!("[{:>12.6}] {}", (self.now - EPOCH_BASE_NS) as f64 / 1e9, s));
        }
    }

    /// trace mode: one line per task with what it is waiting for (appended when the run ends)
    pub fn trace_tasks(&mut self) {
        if self.trace.is_none() {
            return;
        }
        fn kind(w: &Wait) -> String {
            match w {
                Wait::Never => "never".into(),
                Wait::Until(t) => format!("until {}", t),
                Wait::Flag(_) => "flag".into(),
                Wait::PipeReadable(p) => format!("pipe-readable {}", p),
                Wait::Accept(l) => format!("accept {}", l),
                Wait::Signal(n) => format!("signal n{}", n),
                Wait::Kick(n, t) => format!("kick n{} or {}", n, t),
                Wait::Any(v) => format!("any[{}]", v.iter().map(kind).collect::<Vec<_>>().join(", ")),
                Wait::Cond(_) => "cond".into(),
            }
        }
        let mut lines = Vec::new();
        for id in 0..self.metas.len() {
            if let Some(Some(m)) = self.metas.get(id) {
                let w = self.waits.get(id).and_then(|w| w.as_ref()).map(kind).unwrap_or_else(|| "-".into());
                let p = self.paused_until.get(id).copied().unwrap_or(0);
                let st = self.stalled_until_time.get(id).copied().unwrap_or(0);
                lines.push(format!("task {} {:?} node {:?} gen {} wait [{}] paused_until_step {} stalled_until {} (now {}, step {})", id, m.name, m.node, m.gen, w, p, st, self.now, self.stats.steps));
            }
        }
        for l in lines {
            self.trace_ev(|| l);
        }
    }

    pub fn note(&mut self, v: u64) {
        self.hash = mix(self.hash, v);
    }

    /// Per-node wall clock, strictly increasing per node (as on real hardware where two
    /// consecutive clock reads by one process differ by at least a nanosecond... unless the coarse
    /// clock fault is on, in which case reads are rounded down to the configured granularity).
    pub fn systime_ns(&mut self, id: usize) -> u64 {
        let n = self.node_of(id);
        match n {
            Some(n) => {
                let node = &mut self.nodes[n as usize];
                let mut t = (self.now as i64 + node.skew_ns) as u64;
                if node.coarse_clock_ns > 1 {
                    t -= t % node.coarse_clock_ns;
                    if t < node.last_systime {
                        t = node.last_systime;
                    }
                    node.last_systime = t;
                    return t;
                }
                if t <= node.last_systime {
                    t = node.last_systime + 1;
                }
                node.last_systime = t;
                t
            }
            None => self.now,
        }
    }

    pub fn eval(&self, w: &Wait) -> Ready {
        match w {
            Wait::Never => Ready::No,
            Wait::Until(t) => {
                if self.now >= *t {
                    Ready::Yes
                } else {
                    Ready::At(*t)
                }
            }
            Wait::Flag(f) => {
                if f.load(Ordering::SeqCst) {
                    Ready::Yes
                } else {
                    Ready::No
                }
            }
            Wait::PipeReadable(p) => self.net.pipe_ready(*p, self.now),
            Wait::Accept(l) => self.net.accept_ready(*l),
            Wait::Signal(n) => {
                if self.nodes[*n as usize].sigint_pending {
                    Ready::Yes
                } else {
                    Ready::No
                }
            }
            Wait::Kick(n, t) => {
                if self.nodes[*n as usize].declutter_kick > 0 || self.now >= *t {
                    Ready::Yes
                } else {
                    Ready::At(*t)
                }
            }
            Wait::Any(v) => {
                let mut best = Ready::No;
                for w in v {
                    match self.eval(w) {
                        Ready::Yes => return Ready::Yes,
                        Ready::At(t) => {
                            best = match best {
                                Ready::At(b) if b <= t => Ready::At(b),
                                _ => Ready::At(t),
                            }
                        }
                        Ready::No => {}
                    }
                }
                best
            }
            Wait::Cond(f) => f(self),
        }
    }

    /// Scheduling decision. `runnable` are shuttle-runnable task ids in ascending order.
    pub fn choose(&mut self, runnable: &[usize], current: Option<usize>) -> Option<usize> {
        if self.finished {
            return None;
        }
        self.stats.steps += 1;
        // (a run whose nodes exchange more than 256 MB is a runaway -- messages that grow every round -- and is
        //  cut like a run that exceeds its step budget, before it exhausts the machine's memory)
        if self.stats.steps > self.max_steps || self.net.inter_node_bytes > (256 << 20) {
            self.truncated = true;
            self.finished = true;
            return None;
        }
        if let Some(np) = self.no_preempt {
            if runnable.contains(&np) && self.waits.get(np).map(|w| w.is_none()).unwrap_or(true) {
                return Some(np);
            }
        }
        let mut cands = std::mem::take(&mut self.cands);
        loop {
            cands.clear();
            let mut next_t = u64::MAX;
            for &id in runnable {
                // node gating
                if let Some(Some(m)) = self.metas.get(id) {
                    if let Some(n) = m.node {
                        let node = &self.nodes[n as usize];
                        if !node.alive || node.gen != m.gen {
                            continue;
                        }
                        if node.stall_until > self.now {
                            next_t = next_t.min(node.stall_until);
                            continue;
                        }
                    }
                }
                if let Some(&t) = self.stalled_until_time.get(id) {
                    if t > self.now {
                        next_t = next_t.min(t);
                        continue;
                    }
                }
                match self.waits.get(id).and_then(|w| w.as_ref()) {
                    None => cands.push(id),
                    Some(w) => match self.eval(w) {
                        Ready::Yes => cands.push(id),
                        Ready::At(t) => next_t = next_t.min(t),
                        Ready::No => {}
                    },
                }
            }
            if !cands.is_empty() {
                break;
            }
            if next_t == u64::MAX {
                self.stuck = true;
                self.finished = true;
                self.cands = cands;
                return None;
            }
            debug_assert!(next_t > self.now, "time must advance");
            self.now = next_t.max(self.now + 1);
            self.stats.time_jumps += 1;
        }
        if !self.paused_until.is_empty() {
            // descheduled tasks do not run while somebody else can
            let steps = self.stats.steps;
            let awake = cands.iter().filter(|id| self.paused_until.get(**id).copied().unwrap_or(0) <= steps).count();
            if awake > 0 && awake < cands.len() {
                let pu = &self.paused_until;
                cands.retain(|id| pu.get(*id).copied().unwrap_or(0) <= steps);
            } else if awake == 0 && cands.len() > 1 {
                // everybody who could run is descheduled: the one whose pause ends first runs
                let pu = &self.paused_until;
                let best = *cands.iter().min_by_key(|id| pu.get(**id).copied().unwrap_or(0)).unwrap();
                cands.clear();
                cands.push(best);
            }
        }
        let chosen = match self.policy {
            Policy::Random => cands[self.sched_rng.below(cands.len() as u64) as usize],
            Policy::Sticky(p) => match current {
                Some(c) if cands.contains(&c) && (self.sched_rng.next_u64() & 0xff) < p as u64 => c,
                _ => cands[self.sched_rng.below(cands.len() as u64) as usize],
            },
            Policy::Stall { p, max } => {
                let steps = self.stats.steps;
                if let Some(c) = current {
                    if (self.sched_rng.next_u64() & 0xff) < p as u64 {
                        if self.sched_rng.below(8) == 0 && std::env::var("NUNSIM_NO_TSTALL").is_err() {
                            // descheduled for a stretch of simulated time (50 us - 3 ms): long enough for
                            // a network round trip to complete meanwhile
                            let d = 50_000 + self.sched_rng.below(3_000_000);
                            if self.stalled_until_time.len() <= c {
                                self.stalled_until_time.resize(c + 1, 0);
                            }
                            self.stalled_until_time[c] = self.now + d;
                            self.fault("task_stall_time");
                        } else {
                            if self.paused_until.len() <= c {
                                self.paused_until.resize(c + 1, 0);
                            }
                            self.paused_until[c] = steps + 10 + self.sched_rng.below(max as u64);
                            self.fault("task_stall");
                        }
                    }
                }
                let awake: Vec<usize> = cands.iter().copied().filter(|id| self.paused_until.get(*id).copied().unwrap_or(0) <= steps).collect();
                if awake.is_empty() {
                    cands[self.sched_rng.below(cands.len() as u64) as usize]
                } else {
                    awake[self.sched_rng.below(awake.len() as u64) as usize]
                }
            }
            Policy::Pct { .. } => {
                while self.prio.len() <= *cands.last().unwrap() {
                    let p = (self.sched_rng.next_u64() >> 1) | (1 << 62);
                    self.prio.push(p);
                }
                let mut best = cands[0];
                for &c in cands.iter() {
                    if self.prio[c] > self.prio[best] {
                        best = c;
                    }
                }
                while let Some(&pt) = self.pct_points.first() {
                    if pt <= self.stats.steps {
                        self.pct_points.remove(0);
                        // lower the priority of the task that would run now
                        self.prio[best] = self.sched_rng.next_u64() >> 3;
                        for &c in cands.iter() {
                            if self.prio[c] > self.prio[best] {
                                best = c;
                            }
                        }
                    } else {
                        break;
                    }
                }
                best
            }
        };
        self.cands = cands;
        if chosen != self.last_task {
            self.stats.switches += 1;
            self.switch_hash = mix(self.switch_hash, chosen as u64);
            self.last_task = chosen;
        }
        self.hash = mix(mix(self.hash, chosen as u64), self.now);
        Some(chosen)
    }
}

/// Block the calling task until `w` is satisfied (always a scheduling point when `force_yield`).
pub fn wait(w: Wait, force_yield: bool) {
    let id = me();
    if !force_yield {
        let ready = with(|k| k.eval(&w) == Ready::Yes);
        if ready {
            return;
        }
    }
    with(|k| {
        k.ensure_task(id);
        k.waits[id] = Some(w);
    });
    shuttle::thread::yield_now();
    with(|k| {
        k.waits[id] = None;
    });
}

pub fn block_forever() -> ! {
    loop {
        wait(Wait::Never, true);
    }
}

pub fn now() -> u64 {
    with(|k| k.now)
}

pub fn sleep_ns(d: u64) {
    let t = with(|k| k.now + d);
    wait(Wait::Until(t), true);
}

/// True when the current task's node generation has been killed (it must stop running).
pub fn current_dead() -> bool {
    let id = me();
    with(|k| match k.meta(id) {
        Some(m) => match m.node {
            Some(n) => {
                let node = &k.nodes[n as usize];
                !node.alive || node.gen != m.gen
            }
            None => false,
        },
        None => false,
    })
}

pub struct SimScheduler {
    started: bool,
    ids: Vec<usize>,
}
impl SimScheduler {
    pub fn new() -> Self {
        SimScheduler { started: false, ids: Vec::new() }
    }
}
impl shuttle::scheduler::Scheduler for SimScheduler {
    fn new_execution(&mut self) -> Option<shuttle::scheduler::Schedule> {
        if self.started {
            None
        } else {
            self.started = true;
            Some(shuttle::scheduler::Schedule::new(0))
        }
    }
    fn next_task(
        &mut self,
        runnable_tasks: &[&shuttle::scheduler::Task],
        current_task: Option<shuttle::scheduler::TaskId>,
        _is_yielding: bool,
    ) -> Option<shuttle::scheduler::TaskId> {
        self.ids.clear();
        for t in runnable_tasks {
            self.ids.push(usize::from(t.id()));
        }
        let cur = current_task.map(usize::from);
        let ids = std::mem::take(&mut self.ids);
        let r = with(|k| k.choose(&ids, cur));
        self.ids = ids;
        r.map(shuttle::scheduler::TaskId::from)
    }
    fn next_u64(&mut self) -> u64 {
        with(|k| k.rng.next_u64())
    }
}
