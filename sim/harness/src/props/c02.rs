//! C02 -- set-safe is an atomic compare-and-set; versions only grow; no lost update.
use crate::common::*;
use crate::world::*;
use nundb_verif_rt::kernel::{self, Rng};
use nundb_verif_rt::sim::{run_sim, SimConfig};
use serde::{Deserialize, Serialize};
use serde_json::{json, Value as Json};
use std::sync::{Arc as StdArc, Mutex as StdMutex};

pub struct C02;

#[derive(Clone, Debug, Serialize, Deserialize, PartialEq)]
pub enum Ver {
    /// absolute version argument
    Abs(i32),
    /// relative to the version get-safe reported just before (sequential scenario only)
    Rel(i32),
}

#[derive(Clone, Debug, Serialize, Deserialize, PartialEq)]
pub enum Op {
    Set { key: String, val: String },
    SetSafe { key: String, ver: Ver, val: String },
    Inc { key: String, by: i32 },
    GetSafe { key: String },
    Remove { key: String },
    /// `snapshot <reclaim>` + background snapshot run to completion (sequential scenario only):
    /// turns keys into persisted ones, so a later remove leaves a tombstone
    Snap { reclaim: bool },
}

impl Op {
    pub fn key(&self) -> &str {
        match self {
            Op::Set { key, .. } | Op::SetSafe { key, .. } | Op::Inc { key, .. } | Op::GetSafe { key } | Op::Remove { key } => key,
            Op::Snap { .. } => "",
        }
    }
    pub fn kind(&self) -> &'static str {
        match self {
            Op::Set { .. } => "set",
            Op::SetSafe { .. } => "set-safe",
            Op::Inc { .. } => "increment",
            Op::GetSafe { .. } => "get-safe",
            Op::Remove { .. } => "remove",
            Op::Snap { .. } => "snapshot",
        }
    }
    fn line(&self, cur: Option<i32>) -> String {
        match self {
            Op::Set { key, val } => format!("set {} {}", key, val),
            Op::SetSafe { key, ver, val } => {
                let v = match ver {
                    Ver::Abs(v) => *v,
                    Ver::Rel(d) => cur.unwrap_or(0) + d,
                };
                format!("set-safe {} {} {}", key, v, val)
            }
            Op::Inc { key, by } => format!("increment {} {}", key, by),
            Op::GetSafe { key } => format!("get-safe {}", key),
            Op::Remove { key } => format!("remove {}", key),
            Op::Snap { reclaim } => format!("snapshot {}", reclaim),
        }
    }
}

#[derive(Clone, Debug, Serialize, Deserialize)]
pub struct Program {
    /// ops applied sequentially before the concurrent phase (initial state)
    pub setup: Vec<Op>,
    /// one op list per concurrent client (sequential scenario: exactly one client)
    pub clients: Vec<Vec<Op>>,
    /// concurrent scenario: a `snapshot <reclaim>` is requested and released to run (on the node's
    /// snapshot thread) while the clients execute
    #[serde(default)]
    pub background_snapshot: Option<bool>,
    /// wire scenario: the front end the client talks to ("tcp", "ws", "http")
    #[serde(default)]
    pub transport: String,
}

const KEYS: [&str; 2] = ["a", "b"];

fn gen_sequential(rng: &mut Rng) -> Program {
    let n = rng.range(2, 12) as usize;
    let mut ops = Vec::new();
    let mut uniq = 0;
    for _ in 0..n {
        let key = KEYS[rng.below(2) as usize].to_string();
        uniq += 1;
        let val = if rng.chance(1, 4) { format!("{}", rng.range(0, 50)) } else { format!("v{}", uniq) };
        let op = match rng.below(11) {
            10 => Op::Snap { reclaim: rng.chance(1, 3) },
            0 | 1 => Op::Set { key, val },
            2..=5 => {
                let ver = match rng.below(7) {
                    0 => Ver::Abs(-1),
                    1 => Ver::Rel(-1),
                    2 => Ver::Rel(0),
                    3 => Ver::Rel(1),
                    4 => Ver::Abs(100_000 + rng.below(10) as i32),
                    // below the protocol's "no version" (-1): never a version a key can have, so never "not older"
                    // than an existing key's
                    5 => Ver::Abs(-2 - rng.below(3) as i32),
                    _ => Ver::Rel(0),
                };
                Op::SetSafe { key, ver, val }
            }
            6 | 7 => Op::Inc { key, by: rng.range(0, 5) as i32 },
            8 => Op::Remove { key },
            _ => Op::GetSafe { key },
        };
        ops.push(op);
    }
    Program { setup: vec![], clients: vec![ops], background_snapshot: None, transport: String::new() }
}

fn gen_concurrent(rng: &mut Rng) -> Program {
    let nkeys = rng.range(1, 2) as usize;
    let nclients = rng.range(2, 3) as usize;
    let mut uniq = 0;
    let mut setup = Vec::new();
    // initial state: each key absent, or present at some version
    let mut base = vec![None; nkeys];
    for k in 0..nkeys {
        if rng.chance(3, 4) {
            let sets = rng.range(1, 3);
            for _ in 0..sets {
                uniq += 1;
                let numeric = rng.chance(1, 3);
                let val = if numeric { format!("{}", rng.range(0, 9)) } else { format!("i{}", uniq) };
                setup.push(Op::Set { key: KEYS[k].to_string(), val });
            }
            base[k] = Some(sets as i32 - 1);
        }
    }
    // half of the cases: the initial keys are persisted by a completed snapshot (a remove then leaves a
    // tombstone, a write goes through the persisted-key paths); sometimes one of them is removed again
    if !setup.is_empty() && rng.chance(1, 2) {
        setup.push(Op::Snap { reclaim: false });
        if rng.chance(1, 3) {
            let k = rng.below(nkeys as u64) as usize;
            setup.push(Op::Remove { key: KEYS[k].to_string() });
            base[k] = None;
        }
    }
    let background_snapshot = if rng.chance(1, 4) { Some(rng.chance(1, 2)) } else { None };
    let mut clients = Vec::new();
    for _c in 0..nclients {
        let n = rng.range(1, 3) as usize;
        let mut ops = Vec::new();
        for _ in 0..n {
            let ki = rng.below(nkeys as u64) as usize;
            let key = KEYS[ki].to_string();
            uniq += 1;
            let val = format!("w{}", uniq);
            let cur = base[ki].unwrap_or(0);
            let op = match rng.below(12) {
                0 | 1 => Op::Set { key, val },
                2..=6 => {
                    let ver = match rng.below(6) {
                        0 => cur - 1,
                        1 | 2 | 3 => cur,
                        4 => cur + 1,
                        _ => cur + 2,
                    };
                    Op::SetSafe { key, ver: Ver::Abs(ver.max(0)), val }
                }
                7 | 8 => Op::Inc { key, by: rng.range(0, 3) as i32 },
                9 => Op::Remove { key },
                _ => Op::GetSafe { key },
            };
            ops.push(op);
        }
        clients.push(ops);
    }
    Program { setup, clients, background_snapshot, transport: String::new() }
}

#[derive(Clone, Debug)]
struct Rec {
    client: usize,
    op: Op,
    invoke: u64,
    ret: u64,
    resp: Resp,
    msgs: Vec<String>,
}

fn parse_value_version(msgs: &[String]) -> Option<(i32, String)> {
    for m in msgs {
        if let Some(rest) = m.strip_prefix("value-version ") {
            let rest = rest.trim_end_matches('\n');
            let mut it = rest.splitn(2, ' ');
            let v = it.next()?.parse::<i32>().ok()?;
            let val = it.next().unwrap_or("").to_string();
            return Some((v, val));
        }
    }
    None
}

struct Outcome {
    recs: Vec<Rec>,
    /// watcher notifications in arrival order: (key, version, value) / removed
    notes: Vec<String>,
    finals: Vec<(String, Option<(i32, String)>)>,
    /// state of every key when the concurrent phase starts (None = absent)
    inits: Vec<Option<(i32, String)>>,
    setup_ok: bool,
    seq_violations: Vec<Violation>,
}

fn execute(prog: Program, sequential: bool) -> Outcome {
    let w = World::new(1);
    w.boot(0, "");
    let mut out = Outcome { recs: vec![], notes: vec![], finals: vec![], inits: vec![], setup_ok: false, seq_violations: vec![] };
    if !w.wait_primary(0, 5_000) {
        return out;
    }
    let dbs = match w.dbs(0) {
        Some(d) => d,
        None => return out,
    };
    let mut admin = Session::admin(&dbs);
    if admin.exec("create-db d tok none").resp.is_err() {
        return out;
    }
    admin.exec("use-db d tok");
    for op in prog.setup.iter() {
        admin.exec(&op.line(None));
        if let Op::Snap { .. } = op {
            if !w.declutter_tick(0, 10_000) {
                return out;
            }
        }
    }
    for k in KEYS.iter() {
        let vv = parse_value_version(&admin.exec(&format!("get-safe {}", k)).msgs);
        let present = admin.exec("keys").msgs.iter().any(|m| m.trim_end().trim_start_matches("keys ").split(',').any(|x| x == *k));
        out.inits.push(if present { vv } else { None });
    }
    // observer watching every key
    let mut obs = Session::new(&dbs);
    obs.exec("use-db d tok");
    for k in KEYS.iter() {
        obs.exec(&format!("watch {}", k));
    }
    out.setup_ok = true;

    if sequential {
        out.seq_violations = if prog.transport.is_empty() {
            run_sequential(&w, &mut admin, &prog.clients[0])
        } else {
            wait_cond(1_000, 1, || nundb_verif_rt::kernel::with(|k| k.net.lookup(&w.nodes[0].ws).is_some() && k.net.lookup(&w.nodes[0].http).is_some() && k.net.lookup(&w.nodes[0].tcp).is_some()));
            run_wire(&w, &mut admin, &prog.transport, &prog.clients[0])
        };
        return out;
    }

    if let Some(reclaim) = prog.background_snapshot {
        admin.exec(&format!("snapshot {}", reclaim));
        w.declutter_kick(0);
    }
    let seqno = StdArc::new(std::sync::atomic::AtomicU64::new(0));
    let recs: StdArc<StdMutex<Vec<Rec>>> = StdArc::new(StdMutex::new(Vec::new()));
    let mut handles = Vec::new();
    for (ci, ops) in prog.clients.iter().cloned().enumerate() {
        let dbs = dbs.clone();
        let recs = recs.clone();
        let seqno = seqno.clone();
        handles.push(spawn_on_node(&w, 0, &format!("c{}", ci), move || {
            let mut s = Session::new(&dbs);
            s.exec("use-db d tok");
            for op in ops {
                let line = op.line(None);
                let invoke = seqno.fetch_add(1, std::sync::atomic::Ordering::SeqCst);
                let r = s.exec(&line);
                let ret = seqno.fetch_add(1, std::sync::atomic::Ordering::SeqCst);
                recs.lock().unwrap().push(Rec { client: ci, op, invoke, ret, resp: r.resp, msgs: r.msgs });
            }
        }));
    }
    for h in handles {
        let _ = h.join();
    }
    if prog.background_snapshot.is_some() {
        // let the background snapshot finish (it purges tombstones at its end)
        sleep_ms(50);
    }
    out.recs = recs.lock().unwrap().clone();
    out.notes = obs.drain();
    for k in KEYS.iter() {
        let r = admin.exec(&format!("get-safe {}", k));
        let vv = parse_value_version(&r.msgs);
        let present = admin.exec("keys").msgs.iter().any(|m| {
            m.trim_end().trim_start_matches("keys ").split(',').any(|x| x == *k)
        });
        out.finals.push((k.to_string(), if present { vv } else { None }));
    }
    out
}

/// Sequential rules from the statement, checked op by op with a get-safe before and after.
fn run_sequential(w: &World, s: &mut Session, ops: &[Op]) -> Vec<Violation> {
    let mut viols = Vec::new();
    // per key: (exists, max version in this incarnation)
    let mut maxv: std::collections::BTreeMap<String, Option<i32>> = Default::default();
    let present = |s: &mut Session, k: &str| -> bool {
        s.exec("keys").msgs.iter().any(|m| m.trim_end().trim_start_matches("keys ").split(',').any(|x| x == k))
    };
    for op in ops {
        if let Op::Snap { .. } = op {
            s.exec(&op.line(None));
            if !w.declutter_tick(0, 10_000) {
                viols.push(Violation::new("snapshot-stuck", "snapshot", "background snapshot did not finish"));
                break;
            }
            continue;
        }
        let key = op.key().to_string();
        let before_present = present(s, &key);
        let before = parse_value_version(&s.exec(&format!("get-safe {}", key)).msgs);
        let (bver, bval) = before.clone().unwrap_or((0, String::new()));
        let line = op.line(Some(bver));
        let r = s.exec(&line);
        let after_present = present(s, &key);
        let after = parse_value_version(&s.exec(&format!("get-safe {}", key)).msgs);
        let (aver, aval) = after.clone().unwrap_or((0, String::new()));
        let entry = maxv.entry(key.clone()).or_insert(None);
        if !before_present {
            *entry = None;
        } else if entry.is_none() {
            *entry = Some(bver);
        }
        match op {
            Op::GetSafe { .. } | Op::Snap { .. } => {}
            Op::Remove { .. } => {
                if after_present {
                    viols.push(Violation::new("remove-ineffective", "remove", format!("`{}` left the key listed", line)));
                }
                *entry = None;
            }
            Op::Set { val, .. } | Op::SetSafe { val, .. } => {
                let passed = match op {
                    Op::SetSafe { ver, .. } => Some(match ver {
                        Ver::Abs(v) => *v,
                        Ver::Rel(d) => bver + d,
                    }),
                    _ => None,
                };
                let must_succeed = match passed {
                    None => true,
                    Some(v) => !before_present || v == -1 || v >= bver,
                };
                let ok = !r.resp.is_err();
                // a version below -1 presented for an absent key: not a version at all; whether that is "a write to
                // an absent key" (succeeds) or malformed input (refused) is not judged, only that the reply is true
                let unjudged = matches!(passed, Some(v) if v < -1) && !before_present;
                if ok != must_succeed && !unjudged {
                    viols.push(Violation::new(
                        if ok { "stale-accepted" } else { "fresh-refused" },
                        op.kind(),
                        format!("`{}` with key {} at version {} => {:?}", line, if before_present { "present" } else { "absent" }, bver, r.resp),
                    ));
                }
                if ok {
                    if &aval != val || !after_present {
                        viols.push(Violation::new("write-not-applied", op.kind(), format!("`{}` acknowledged but get-safe gives {:?}", line, after)));
                    }
                    if let Some(m) = *entry {
                        if aver <= m {
                            viols.push(Violation::new(
                                "version-regressed",
                                op.kind(),
                                format!("`{}`: version {} after the key already had version {} in this incarnation", line, aver, m),
                            ));
                        }
                    }
                    *entry = Some(entry.map(|m| m.max(aver)).unwrap_or(aver));
                } else if (aver, &aval) != (bver, &bval) || after_present != before_present {
                    viols.push(Violation::new("refused-changed", op.kind(), format!("`{}` refused but {:?} -> {:?}", line, before, after)));
                }
            }
            Op::Inc { by, .. } => {
                let numeric = if before_present { bval.parse::<i32>().ok() } else { Some(0) };
                let ok = !r.resp.is_err();
                match numeric {
                    Some(n) => {
                        if !ok {
                            viols.push(Violation::new("increment-refused", "increment", format!("`{}` on {:?} => {:?}", line, before, r.resp)));
                        } else {
                            if aval != (n + by).to_string() {
                                viols.push(Violation::new("increment-wrong", "increment", format!("`{}` on {} gives {}", line, n, aval)));
                            }
                            if let Some(m) = *entry {
                                if aver <= m {
                                    viols.push(Violation::new(
                                        "version-regressed",
                                        "increment",
                                        format!("`{}`: version {} after the key already had version {} in this incarnation", line, aver, m),
                                    ));
                                }
                            }
                            *entry = Some(entry.map(|m| m.max(aver)).unwrap_or(aver));
                        }
                    }
                    None => {
                        if ok || (aver, &aval) != (bver, &bval) {
                            viols.push(Violation::new("increment-nonnumeric", "increment", format!("`{}` on {:?} => {:?} / {:?}", line, before, r.resp, after)));
                        }
                    }
                }
            }
        }
    }
    viols
}

/// wire scenario: one client over a real front end; what the reply says (acknowledged / refused) must be what
/// happened to the key (read back through an administrator's direct session)
fn run_wire(w: &World, admin: &mut Session, transport: &str, ops: &[Op]) -> Vec<Violation> {
    let mut viols = Vec::new();
    let mut tcp: Option<WireClient> = None;
    let mut wsc: Option<WsClient> = None;
    match transport {
        "tcp" => {
            let mut c = match WireClient::connect(&w.nodes[0].tcp) {
                Some(c) => c,
                None => return viols,
            };
            if !c.greeting(2_000) || c.request("use-db d tok", 2_000).is_none() {
                return viols;
            }
            tcp = Some(c);
        }
        "ws" => {
            let mut c = match WsClient::connect(&w.nodes[0].ws) {
                Some(c) => c,
                None => return viols,
            };
            if c.request("use-db d tok", 2_000).is_none() {
                return viols;
            }
            wsc = Some(c);
        }
        _ => {}
    }
    let present = |s: &mut Session, k: &str| -> bool { s.exec("keys").msgs.iter().any(|m| m.trim_end().trim_start_matches("keys ").split(',').any(|x| x == k)) };
    for op in ops {
        if let Op::Snap { .. } = op {
            admin.exec(&op.line(None));
            if !w.declutter_tick(0, 10_000) {
                viols.push(Violation::new("snapshot-stuck", "snapshot", "background snapshot did not finish"));
                break;
            }
            continue;
        }
        let key = op.key().to_string();
        let before_present = present(admin, &key);
        let before = parse_value_version(&admin.exec(&format!("get-safe {}", key)).msgs);
        let (bver, bval) = before.clone().unwrap_or((0, String::new()));
        let line = op.line(Some(bver));
        let replies: Option<Vec<String>> = match transport {
            "tcp" => tcp.as_mut().and_then(|c| c.request(&line, 3_000)),
            "ws" => wsc.as_mut().and_then(|c| c.request(&line, 3_000)),
            _ => http_request(&w.nodes[0].http, &format!("use-db d tok;{}", line), 3_000).map(|r| match r.split(';').last() {
                Some(e) => vec![e.to_string()],
                None => vec![],
            }),
        };
        let replies = match replies {
            Some(r) => r,
            None => {
                viols.push(Violation::new("no-reply", format!("{}:{}", transport, op.kind()), format!("`{}` over {} got no reply", line, transport)));
                break;
            }
        };
        let after_present = present(admin, &key);
        let after = parse_value_version(&admin.exec(&format!("get-safe {}", key)).msgs);
        let (aver, aval) = after.clone().unwrap_or((0, String::new()));
        // the reply's class: an error text, or an acknowledgement (`ok` on tcp / ws, `empty` in an HTTP entry)
        // (an HTTP entry is `empty` for an acknowledged command without a value, else the bare error text)
        let said_ok = replies.iter().any(|m| {
            let m = m.trim();
            m == "ok" || m == "empty"
        });
        let said_error = if transport == "http" {
            !said_ok && replies.iter().any(|m| !m.trim().is_empty() && !m.starts_with("value"))
        } else {
            replies.iter().any(|m| m.trim().starts_with("error"))
        };
        match op {
            Op::Set { val, .. } | Op::SetSafe { val, .. } => {
                let applied = after_present && &aval == val && (aver != bver || bval != *val || !before_present);
                let unchanged = (aver, &aval, after_present) == (bver, &bval, before_present);
                if said_ok && !said_error && !applied {
                    viols.push(Violation::new(
                        "acknowledged-not-applied",
                        format!("{}:{}", transport, op.kind()),
                        format!("`{}` over {} with the key at {:?} was answered {:?} but the key holds {:?}", line, transport, before, replies, after),
                    ));
                }
                if said_error && !unchanged {
                    viols.push(Violation::new(
                        "refused-changed",
                        format!("{}:{}", transport, op.kind()),
                        format!("`{}` over {} was answered {:?} but the key went {:?} -> {:?}", line, transport, replies, before, after),
                    ));
                }
                if !said_ok && !said_error {
                    viols.push(Violation::new("no-reply", format!("{}:{}:unreadable", transport, op.kind()), format!("`{}` over {} answered {:?}", line, transport, replies)));
                }
            }
            Op::Inc { by, .. } => {
                let numeric = if before_present { bval.parse::<i32>().ok() } else { Some(0) };
                if let Some(n) = numeric {
                    if said_ok && !said_error && aval != (n + by).to_string() {
                        viols.push(Violation::new(
                            "acknowledged-not-applied",
                            format!("{}:increment", transport),
                            format!("`{}` over {} on {:?} was answered {:?} but the key holds {:?}", line, transport, before, replies, after),
                        ));
                    }
                } else if !said_error || (aver, &aval) != (bver, &bval) {
                    viols.push(Violation::new("increment-nonnumeric", format!("{}:increment", transport), format!("`{}` over {} on {:?} => {:?} / {:?}", line, transport, before, replies, after)));
                }
            }
            Op::Remove { .. } => {
                if said_ok && !said_error && after_present {
                    viols.push(Violation::new("remove-ineffective", format!("{}:remove", transport), format!("`{}` over {} answered {:?} and left the key listed", line, transport, replies)));
                }
            }
            Op::GetSafe { .. } | Op::Snap { .. } => {}
        }
    }
    viols
}

// ------------------------------------------------------------------------------------------------
// linearizability of the concurrent history against a versioned register
// ------------------------------------------------------------------------------------------------

#[derive(Clone, Debug, PartialEq)]
struct KeyState {
    exists: bool,
    value: String,
    /// None = unknown (after an increment whose resulting version was not observed)
    version: Option<i32>,
    maxv: Option<i32>,
}

/// version each successful set/set-safe produced, from the observer's changed-version lines
fn produced_versions(notes: &[String]) -> std::collections::HashMap<String, i32> {
    let mut m = std::collections::HashMap::new();
    for n in notes {
        if let Some(rest) = n.strip_prefix("changed-version ") {
            let rest = rest.trim_end_matches('\n');
            let mut it = rest.splitn(3, ' ');
            let _k = it.next();
            if let (Some(v), Some(val)) = (it.next(), it.next()) {
                if let Ok(v) = v.parse::<i32>() {
                    m.insert(val.to_string(), v);
                }
            }
        }
    }
    m
}

fn apply(st: &KeyState, r: &Rec, produced: &std::collections::HashMap<String, i32>) -> Option<KeyState> {
    let ok = !r.resp.is_err();
    let mut s = st.clone();
    match &r.op {
        Op::Snap { .. } => Some(s),
        Op::GetSafe { .. } => {
            let (ver, val) = parse_value_version(&r.msgs)?;
            if st.exists {
                if val != st.value {
                    return None;
                }
                match st.version {
                    Some(v) => {
                        if v != ver {
                            return None;
                        }
                    }
                    None => {
                        // binds the unknown version left by an increment
                        s.version = Some(ver);
                        s.maxv = Some(s.maxv.map(|m| m.max(ver)).unwrap_or(ver));
                    }
                }
            } else if val != "<Empty>" {
                return None;
            }
            Some(s)
        }
        Op::Remove { .. } => {
            if !ok {
                return None;
            }
            s.exists = false;
            s.version = None;
            s.maxv = None;
            s.value = String::new();
            Some(s)
        }
        Op::Set { val, .. } | Op::SetSafe { val, .. } => {
            let must = match &r.op {
                Op::SetSafe { ver: Ver::Abs(v), .. } => {
                    if !st.exists || *v == -1 {
                        Some(true)
                    } else {
                        st.version.map(|cur| *v >= cur)
                    }
                }
                _ => Some(true),
            };
            if let Some(m) = must {
                if m != ok {
                    return None;
                }
            }
            if ok {
                s.exists = true;
                s.value = val.clone();
                s.version = produced.get(val).copied();
                if let Some(v) = s.version {
                    s.maxv = Some(s.maxv.map(|m| m.max(v)).unwrap_or(v));
                }
            }
            Some(s)
        }
        Op::Inc { by, .. } => {
            let cur = if st.exists { st.value.parse::<i32>().ok() } else { Some(0) };
            match cur {
                Some(n) => {
                    if !ok {
                        return None;
                    }
                    s.exists = true;
                    s.value = (n + by).to_string();
                    s.version = None;
                    Some(s)
                }
                None => {
                    if ok {
                        None
                    } else {
                        Some(s)
                    }
                }
            }
        }
    }
}

/// DFS over linearizations of the ops on one key.
fn linearizable(
    init: &KeyState,
    recs: &[&Rec],
    fin: &Option<(i32, String)>,
    produced: &std::collections::HashMap<String, i32>,
) -> bool {
    fn go(
        st: &KeyState,
        recs: &[&Rec],
        used: u32,
        fin: &Option<(i32, String)>,
        produced: &std::collections::HashMap<String, i32>,
    ) -> bool {
        if used.count_ones() as usize == recs.len() {
            return match fin {
                None => !st.exists,
                Some((ver, val)) => st.exists && &st.value == val && st.version.map(|v| v == *ver).unwrap_or(true),
            };
        }
        // candidate = not used, and no other unused op returned before it was invoked
        for i in 0..recs.len() {
            if used & (1 << i) != 0 {
                continue;
            }
            let mut minimal = true;
            for j in 0..recs.len() {
                if j != i && used & (1 << j) == 0 && recs[j].ret < recs[i].invoke {
                    minimal = false;
                    break;
                }
            }
            if !minimal {
                continue;
            }
            if let Some(ns) = apply(st, recs[i], produced) {
                if go(&ns, recs, used | (1 << i), fin, produced) {
                    return true;
                }
            }
        }
        false
    }
    go(init, recs, 0, fin, produced)
}

fn check_concurrent(prog: &Program, out: &Outcome) -> Vec<Violation> {
    let mut viols = Vec::new();
    let produced = produced_versions(&out.notes);
    for (ki, key) in KEYS.iter().enumerate() {
        let recs: Vec<&Rec> = out.recs.iter().filter(|r| r.op.key() == *key).collect();
        if recs.is_empty() {
            continue;
        }
        // initial state as observed when the concurrent phase started
        let init = match out.inits.get(ki).cloned().flatten() {
            Some((ver, val)) => KeyState { exists: true, value: val, version: Some(ver), maxv: Some(ver) },
            None => KeyState { exists: false, value: String::new(), version: None, maxv: None },
        };
        let fin = &out.finals[ki].1;
        let kinds = {
            let mut k: Vec<&str> = recs.iter().map(|r| r.op.kind()).filter(|k| *k != "get-safe").collect();
            k.sort();
            k.dedup();
            k.join("+")
        };
        // corollary 1: two writers with the same base both succeeded (no remove on the key)
        let has_remove = recs.iter().any(|r| matches!(r.op, Op::Remove { .. }));
        if init.exists && !has_remove {
            let winners: Vec<&&Rec> = recs
                .iter()
                .filter(|r| matches!(r.op, Op::SetSafe { .. }) && !r.resp.is_err())
                .collect();
            for i in 0..winners.len() {
                for j in i + 1..winners.len() {
                    if let (Op::SetSafe { ver: Ver::Abs(a), .. }, Op::SetSafe { ver: Ver::Abs(b), .. }) = (&winners[i].op, &winners[j].op) {
                        if a == b && *a >= 0 {
                            viols.push(Violation::new(
                                "two-winners",
                                "set-safe+set-safe",
                                format!(
                                    "key {}: clients c{} and c{} both had `set-safe {} {}` acknowledged; final {:?}",
                                    key, winners[i].client, winners[j].client, key, a, fin
                                ),
                            ));
                        }
                    }
                }
            }
        }
        if !viols.is_empty() {
            continue;
        }
        if recs.len() <= 12 && !linearizable(&init, &recs, fin, &produced) {
            let hist: Vec<String> = recs
                .iter()
                .map(|r| format!("c{}[{}..{}] {} => {:?}", r.client, r.invoke, r.ret, r.op.line(None), r.resp))
                .collect();
            viols.push(Violation::new(
                "not-linearizable",
                kinds.clone(),
                format!("key {}: init {:?}; history {:?}; final {:?}; no sequential order explains it", key, init, hist, fin),
            ));
        }
        // versions only grow within an incarnation (observer's notifications are in commit order per key
        // only when writers do not race; so use the weaker end-to-end form: final version >= every
        // produced version of an acknowledged write when no remove happened)
        if !has_remove {
            if let Some((fver, _)) = fin {
                for r in recs.iter() {
                    if let Op::Set { val, .. } | Op::SetSafe { val, .. } = &r.op {
                        if !r.resp.is_err() {
                            if let Some(p) = produced.get(val) {
                                if p > fver {
                                    viols.push(Violation::new(
                                        "version-regressed",
                                        kinds.clone(),
                                        format!("key {}: write {} produced version {} but the key ends at version {}", key, val, p, fver),
                                    ));
                                }
                            }
                        }
                    }
                }
            }
        }
    }
    viols
}

impl Property for C02 {
    fn id(&self) -> &'static str {
        "C02"
    }
    fn scenarios(&self) -> Vec<(&'static str, u32)> {
        vec![("concurrent", 6), ("sequential", 2), ("wire", 1)]
    }
    fn budget(&self) -> (u64, u64) {
        (300_000, 6_000_000)
    }
    fn rule(&self) -> &'static str {
        "concurrent: 2-3 direct sessions x 1-3 ops of {set,set-safe v,increment,get-safe,remove} on 1-2 keys of a strategy-none database on a node booted by the real start_db, every lock/atomic a preemption point; in half of the cases the initial keys were persisted by a completed snapshot (and one may have been removed again: tombstone), in a quarter a `snapshot <reclaim>` is released to run on the node's snapshot thread while the clients execute; sequential: 2-12 ops with version arguments {-1,cur-2,cur-1,cur,cur+1,large}; wire: the sequential programs sent by one client over the real TCP, WebSocket or HTTP front end -- a write the reply acknowledges (`ok` / an `empty` HTTP entry) must be stored, a write answered with an error must have changed nothing (state read back through an administrator's direct session). A case is non-trivial when at least two clients' operations on one key overlapped in time (concurrent) or a versioned write hit an existing key (sequential); distinct = distinct (program, task-switch sequence) hash."
    }
    fn assumptions(&self) -> Vec<String> {
        vec![
            "`set-safe k -1 v` is the protocol's unversioned write (identical to `set`), so -1 always succeeds".into(),
            "SeqCst memory model (shuttle); lock-level interleavings only".into(),
        ]
    }
    fn components(&self) -> Json {
        json!({"real": ["main.rs start_db", "process_request", "parse_request", "security", "db_ops", "bo::Database", "replication loop", "oplog writer"],
               "simulated": ["threads/locks/atomics (shuttle)", "clock", "disk", "tcp (idle)"], "stub": []})
    }
    fn run_one(&self, scenario: &str, ctx: &RunCtx) -> RunReport {
        let mut rng = Rng::new(ctx.seed);
        let sequential = scenario == "sequential" || scenario == "wire";
        let prog: Program = match &ctx.program {
            Some(p) => serde_json::from_value(p.clone()).expect("program"),
            None => {
                if scenario == "wire" {
                    let mut p = gen_sequential(&mut rng);
                    p.transport = ["tcp", "ws", "http"][rng.below(3) as usize].to_string();
                    p
                } else if sequential {
                    gen_sequential(&mut rng)
                } else {
                    gen_concurrent(&mut rng)
                }
            }
        };
        let mut cfg = SimConfig::new(ctx.seed ^ 0xc02);
        cfg.policy = policy_for(Rng::new(ctx.seed ^ 0x9011c7).next_u64());
        cfg.trace = ctx.trace;
        let p2 = prog.clone();
        let outcome = run_sim(cfg, move || execute(p2, sequential));
        clear_registry();
        let mut rep = RunReport { seed: ctx.seed, scenario: scenario.to_string(), ..Default::default() };
        rep.program = serde_json::to_value(&prog).unwrap();
        rep.absorb_kernel(&outcome.kernel);
        if let Some(p) = outcome.harness_panic {
            rep.harness_error = Some(p);
            return rep;
        }
        let out = match outcome.result {
            Some(o) => o,
            None => {
                rep.discarded = Some("run cut short".into());
                return rep;
            }
        };
        if !out.setup_ok {
            rep.discarded = Some("setup_unstable".into());
            return rep;
        }
        for p in outcome.kernel.panics.iter() {
            rep.violations.push(Violation::new("panic", p.location.clone(), format!("{} at {}", p.message, p.location)));
        }
        if sequential {
            rep.violations.extend(out.seq_violations.clone());
            rep.nontrivial = prog.clients[0].iter().any(|o| matches!(o, Op::SetSafe { .. }));
        } else {
            rep.violations.extend(check_concurrent(&prog, &out));
            // overlap: two ops of different clients on one key with intersecting [invoke, ret]
            let mut overlapped = false;
            for a in out.recs.iter() {
                for b in out.recs.iter() {
                    if a.client < b.client && a.op.key() == b.op.key() && a.invoke < b.ret && b.invoke < a.ret {
                        overlapped = true;
                    }
                }
            }
            rep.nontrivial = overlapped;
        }
        rep.case_hash = nundb_verif_rt::kernel::mix(hash_str(&rep.program.to_string()), outcome.kernel.switch_hash);
        let _ = kernel::MS;
        rep
    }
    fn shrink(&self, _scenario: &str, program: &Json) -> Vec<Json> {
        let p: Program = match serde_json::from_value(program.clone()) {
            Ok(p) => p,
            Err(_) => return vec![],
        };
        let mut out = Vec::new();
        for ci in 0..p.clients.len() {
            if p.clients.len() > 1 {
                let mut q = p.clone();
                q.clients.remove(ci);
                out.push(serde_json::to_value(&q).unwrap());
            }
            for oi in 0..p.clients[ci].len() {
                let mut q = p.clone();
                q.clients[ci].remove(oi);
                if !q.clients[ci].is_empty() || q.clients.len() > 1 {
                    out.push(serde_json::to_value(&q).unwrap());
                }
            }
        }
        for si in 0..p.setup.len() {
            let mut q = p.clone();
            q.setup.remove(si);
            out.push(serde_json::to_value(&q).unwrap());
        }
        out
    }
}
