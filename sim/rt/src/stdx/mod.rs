//! Drop-in replacement for the parts of `std` that nun-db uses.  Everything that is not
//! explicitly replaced below is the real `std`.
pub use ::std::*;

pub mod collections;
pub mod fs;
pub mod net;
pub mod path;
pub mod process;
pub mod thread;
pub mod time;

pub mod sync {
    pub use shuttle::sync::*;
}

pub mod os {
    pub use ::std::os::*;
    pub mod unix {
        pub use ::std::os::unix::*;
        pub mod fs {
            pub use crate::stdx::fs::FileExt;
            pub use ::std::os::unix::fs::{MetadataExt, OpenOptionsExt, PermissionsExt};
        }
    }
}
