//! C01 -- reads return the latest successful write (single-node key/value semantics).
use crate::common::*;
use crate::kv::*;
use crate::world::*;
use nundb::bo::{Databases, ValueStatus};
use nundb_verif_rt::kernel::{with, Rng};
use nundb_verif_rt::sim::{run_sim, SimConfig};
use nundb_verif_rt::stdx::sync::Arc;
use serde::{Deserialize, Serialize};
use serde_json::{json, Value as Json};
use std::collections::BTreeMap;

pub struct C01;

#[derive(Clone, Debug, Serialize, Deserialize, PartialEq)]
pub enum Op {
    Set { key: String, val: String },
    /// version = current version (as get-safe reports it) + delta, or -1 when `unversioned`
    SetSafe { key: String, delta: i32, val: String },
    Get { key: String },
    GetSafe { key: String },
    Remove { key: String },
    Inc { key: String, by: i32 },
    Keys { pat: String, admin: bool },
    /// `snapshot <reclaim>` (queues the database for the background snapshot)
    Snapshot { reclaim: bool },
    /// background snapshot runs to completion before the next command
    Tick,
    /// background snapshot is released and races with the following commands
    TickAsync,
}

impl Op {
    fn kind(&self) -> &'static str {
        match self {
            Op::Set { .. } => "set",
            Op::SetSafe { .. } => "set-safe",
            Op::Get { .. } => "get",
            Op::GetSafe { .. } => "get-safe",
            Op::Remove { .. } => "remove",
            Op::Inc { .. } => "increment",
            Op::Keys { .. } => "keys",
            Op::Snapshot { .. } => "snapshot",
            Op::Tick => "tick",
            Op::TickAsync => "tick-async",
        }
    }
}

#[derive(Clone, Debug, Serialize, Deserialize)]
pub struct Program {
    pub ops: Vec<Op>,
}

const KEYS: [&str; 5] = ["ka", "kb", "ab", "$sys", "$$sec"];
const PATS: [&str; 8] = ["k*", "*b", "a", "", "$*", "$$*", "*a", "kb"];

fn gen(rng: &mut Rng, with_async: bool) -> Program {
    let n = rng.range(1, 30) as usize;
    let mut ops = Vec::new();
    let mut uniq = 0u32;
    let nkeys = rng.range(2, KEYS.len() as u64) as usize;
    for _ in 0..n {
        let key = KEYS[rng.below(nkeys as u64) as usize].to_string();
        let op = match rng.below(20) {
            0..=3 => Op::Set { key, val: gen_value(rng, &mut uniq) },
            4 | 5 => Op::SetSafe { key, delta: rng.range(0, 3) as i32 - 1, val: gen_value(rng, &mut uniq) },
            6 | 7 => Op::Get { key },
            8 => Op::GetSafe { key },
            9 | 10 => Op::Remove { key },
            11..=13 => Op::Inc { key, by: rng.range(0, 10) as i32 - 4 },
            14 | 15 => Op::Keys { pat: PATS[rng.below(PATS.len() as u64) as usize].to_string(), admin: rng.chance(1, 2) },
            16 | 17 => Op::Snapshot { reclaim: rng.chance(1, 3) },
            18 => Op::Tick,
            _ => {
                if with_async {
                    Op::TickAsync
                } else {
                    Op::Tick
                }
            }
        };
        let is_snap = matches!(op, Op::Snapshot { .. });
        ops.push(op);
        if is_snap && rng.chance(2, 3) {
            ops.push(if with_async && rng.chance(1, 2) { Op::TickAsync } else { Op::Tick });
        }
    }
    Program { ops }
}

fn key_state(dbs: &Arc<Databases>, key: &str) -> &'static str {
    let map = dbs.map.read().unwrap();
    let db = match map.get(&"d".to_string()) {
        Some(d) => d,
        None => return "NoDb",
    };
    let data = db.map.read().unwrap();
    match data.get(&key.to_string()) {
        None => "Absent",
        Some(v) => match v.state {
            ValueStatus::Ok => "Ok",
            ValueStatus::New => "New",
            ValueStatus::Updated => "Updated",
            ValueStatus::Deleted => "Deleted",
        },
    }
}

struct Outcome {
    setup_ok: bool,
    violations: Vec<Violation>,
    states_seen: BTreeMap<String, u64>,
    snapshots_run: u64,
}

fn execute(prog: Program) -> Outcome {
    let mut out = Outcome { setup_ok: false, violations: vec![], states_seen: BTreeMap::new(), snapshots_run: 0 };
    let w = World::new(1);
    let (dbs, mut admin) = match single_node_with_db(&w, "d", "tok", "none") {
        Some(x) => x,
        None => return out,
    };
    let mut user = Session::new(&dbs);
    if user.exec("use-db d tok").resp.is_err() {
        return out;
    }
    out.setup_ok = true;
    let mut model: BTreeMap<String, String> = BTreeMap::new();
    model.insert("$$token".into(), "tok".into());
    let mut async_pending = false;
    let mut kicks = 0u64;
    let fired = |idx: u32| with(|k| k.ext.get(&format!("timer_fired_{}", idx)).copied().unwrap_or(0));
    let mut viols: Vec<Violation> = Vec::new();
    let mut snaps = 0u64;
    let mut v = |clause: &str, shape: String, msg: String| viols.push(Violation::new(clause, shape, msg));
    for (i, op) in prog.ops.iter().enumerate() {
        let ctx = |line: &str| format!("op #{} `{}`", i, line);
        match op {
            Op::Set { key, val } => {
                let st = key_state(&dbs, key);
                let line = format!("set {} {}", key, val);
                let r = admin.exec(&line);
                if r.resp.is_err() {
                    v("set-refused", format!("set@{}", st), format!("{} => {:?}", ctx(&line), r.resp));
                } else {
                    model.insert(key.clone(), val.clone());
                }
            }
            Op::SetSafe { key, delta, val } => {
                let st = key_state(&dbs, key);
                let cur = parse_value_version(&admin.exec(&format!("get-safe {}", key)).msgs).map(|x| x.0).unwrap_or(0);
                let ver = (cur + delta).max(-1);
                let before = dump_db(&dbs, "d");
                let line = format!("set-safe {} {} {}", key, ver, val);
                let r = admin.exec(&line);
                if r.resp.is_err() {
                    let after = dump_db(&dbs, "d");
                    if before != after && !async_pending {
                        v("refused-changed", format!("set-safe@{}", st), format!("{} refused ({:?}) but the database changed", ctx(&line), r.resp));
                    }
                    if !model.contains_key(key) || ver == -1 || ver >= cur {
                        v("fresh-refused", format!("set-safe@{}", st), format!("{} at current version {} => {:?}", ctx(&line), cur, r.resp));
                    }
                } else {
                    if model.contains_key(key) && ver != -1 && ver < cur {
                        v("stale-accepted", format!("set-safe@{}", st), format!("{} at current version {} was accepted", ctx(&line), cur));
                    }
                    model.insert(key.clone(), val.clone());
                }
            }
            Op::Get { key } | Op::GetSafe { key } => {
                let st = key_state(&dbs, key);
                let safe = matches!(op, Op::GetSafe { .. });
                let line = format!("{} {}", if safe { "get-safe" } else { "get" }, key);
                let r = admin.exec(&line);
                let got = if safe { parse_value_version(&r.msgs).map(|x| x.1) } else { parse_value(&r.msgs) };
                let want = model.get(key).cloned().unwrap_or_else(|| "<Empty>".to_string());
                if r.resp.is_err() || got.as_deref() != Some(want.as_str()) {
                    v(
                        "wrong-read",
                        format!("{}@{}", if safe { "get-safe" } else { "get" }, st),
                        format!("{} => {:?} {:?}, the map holds {:?}", ctx(&line), r.resp, got, want),
                    );
                }
            }
            Op::Remove { key } => {
                let st = key_state(&dbs, key);
                let line = format!("remove {}", key);
                let r = admin.exec(&line);
                if r.resp.is_err() {
                    v("remove-refused", format!("remove@{}", st), format!("{} => {:?}", ctx(&line), r.resp));
                } else {
                    model.remove(key);
                }
            }
            Op::Inc { key, by } => {
                let st = key_state(&dbs, key);
                let line = format!("increment {} {}", key, by);
                let cur = match model.get(key) {
                    Some(s) => as_int(s),
                    None => Some(0),
                };
                let before = dump_db(&dbs, "d");
                let r = admin.exec(&line);
                match cur {
                    Some(n) => {
                        if r.resp.is_err() {
                            let what = if model.contains_key(key) { "increment-refused" } else { "increment-on-absent" };
                            v(what, format!("increment@{}", st), format!("{} on {:?} => {:?}", ctx(&line), model.get(key), r.resp));
                        } else {
                            model.insert(key.clone(), (n + by).to_string());
                        }
                    }
                    None => {
                        if !r.resp.is_err() {
                            v("increment-nonnumeric-accepted", format!("increment@{}", st), format!("{} on {:?} accepted", ctx(&line), model.get(key)));
                            // follow the implementation to keep the model meaningful
                            if let Some(d) = dump_db(&dbs, "d") {
                                if let Some(e) = d.get(key) {
                                    model.insert(key.clone(), e.value.clone());
                                }
                            }
                        } else {
                            let after = dump_db(&dbs, "d");
                            if before != after && !async_pending {
                                v("refused-changed", format!("increment@{}", st), format!("{} refused but the database changed", ctx(&line)));
                            }
                        }
                    }
                }
            }
            Op::Keys { pat, admin: as_admin } => {
                let line = if pat.is_empty() { "keys".to_string() } else { format!("keys {}", pat) };
                let r = if *as_admin { admin.exec(&line) } else { user.exec(&line) };
                let mut got = parse_keys(&r.msgs).unwrap_or_default();
                got.retain(|k| k != "$connections");
                let want: Vec<String> = model
                    .keys()
                    .filter(|k| pattern_matches(pat, k))
                    .filter(|k| *as_admin || !k.starts_with("$$"))
                    .cloned()
                    .collect();
                if r.resp.is_err() || got != want {
                    v(
                        "wrong-listing",
                        format!("keys[{}]{}", pat, if *as_admin { "@admin" } else { "@user" }),
                        format!("{} => {:?} {:?}, expected {:?}", ctx(&line), r.resp, got, want),
                    );
                }
            }
            Op::Snapshot { reclaim } => {
                let line = format!("snapshot {}", reclaim);
                let r = admin.exec(&line);
                if r.resp.is_err() {
                    v("snapshot-refused", "snapshot".into(), format!("{} => {:?}", ctx(&line), r.resp));
                }
            }
            Op::Tick => {
                kicks += 1;
                w.declutter_kick(0);
                let idx = w.nodes[0].idx;
                if !wait_cond(10_000, 1, || fired(idx) >= kicks) {
                    v("snapshot-stuck", "tick".into(), format!("op #{}: the background snapshot did not finish", i));
                    break;
                }
                async_pending = false;
                snaps += 1;
            }
            Op::TickAsync => {
                kicks += 1;
                w.declutter_kick(0);
                async_pending = true;
                snaps += 1;
            }
        }
        let _ = op.kind();
    }
    // let every released snapshot finish, then the final state must still equal the map
    out.violations = viols;
    out.snapshots_run = snaps;
    let idx = w.nodes[0].idx;
    if !wait_cond(10_000, 1, || fired(idx) >= kicks) {
        out.violations.push(Violation::new("snapshot-stuck", "tick", "a background snapshot never finished"));
        return out;
    }
    for key in KEYS.iter() {
        let st = key_state(&dbs, key);
        *out.states_seen.entry(st.to_string()).or_insert(0) += 1;
        let r = admin.exec(&format!("get {}", key));
        let got = parse_value(&r.msgs);
        let want = model.get(*key).cloned().unwrap_or_else(|| "<Empty>".to_string());
        if got.as_deref() != Some(want.as_str()) {
            out.violations.push(Violation::new(
                "wrong-read",
                format!("final-get@{}", st),
                format!("final `get {}` => {:?}, the map holds {:?}", key, got, want),
            ));
        }
    }
    let r = admin.exec("keys");
    let mut got = parse_keys(&r.msgs).unwrap_or_default();
    got.retain(|k| k != "$connections");
    let want: Vec<String> = model.keys().cloned().collect();
    if got != want {
        out.violations.push(Violation::new("wrong-listing", "final-keys", format!("final `keys` => {:?}, expected {:?}", got, want)));
    }
    out
}

impl Property for C01 {
    fn id(&self) -> &'static str {
        "C01"
    }
    fn scenarios(&self) -> Vec<(&'static str, u32)> {
        vec![("sequential", 2), ("background-snapshot", 1)]
    }
    fn budget(&self) -> (u64, u64) {
        (200_000, 5_000_000)
    }
    fn rule(&self) -> &'static str {
        "1-30 commands of {set,set-safe(cur-1|cur|cur+1),get,get-safe,remove,increment,keys(8 patterns, admin/non-admin),snapshot false|true} over 2-5 keys (incl. $sys and $$sec) and a value alphabet with empty, multi-word, numeric-looking, UTF-8 and >250-byte values, against a plain map; the background snapshot (real declutter timer) runs either between commands or released to race with the following commands. Non-trivial: at least one snapshot ran and a later command touched a key. distinct = distinct (program, task-switch sequence)."
    }
    fn assumptions(&self) -> Vec<String> {
        vec![
            "versions, error texts and $connections are not compared; the literal value <Empty> and i32 overflow are not generated".into(),
            "set-safe follows the implementation's accept/refuse decision for the map (the decision itself is C02's subject) but refusals must change nothing".into(),
        ]
    }
    fn components(&self) -> Json {
        json!({"real": ["main.rs start_db", "process_request", "parse_request", "security", "db_ops", "bo::Database", "disk_ops::declutter/snapshot_all_pendding_dbs", "storage::disk", "replication loop + oplog"],
               "simulated": ["threads/locks (shuttle)", "clock", "disk", "declutter timer"], "stub": []})
    }
    fn run_one(&self, scenario: &str, ctx: &RunCtx) -> RunReport {
        let mut rng = Rng::new(ctx.seed);
        let prog: Program = match &ctx.program {
            Some(p) => serde_json::from_value(p.clone()).expect("program"),
            None => gen(&mut rng, scenario == "background-snapshot"),
        };
        let mut cfg = SimConfig::new(ctx.seed ^ 0xc01);
        cfg.policy = policy_for(Rng::new(ctx.seed ^ 0x9011c7).next_u64());
        cfg.trace = ctx.trace;
        let p2 = prog.clone();
        let outcome = run_sim(cfg, move || execute(p2));
        clear_registry();
        let mut rep = RunReport { seed: ctx.seed, scenario: scenario.to_string(), ..Default::default() };
        rep.program = serde_json::to_value(&prog).unwrap();
        rep.absorb_kernel(&outcome.kernel);
        if let Some(p) = outcome.harness_panic {
            rep.harness_error = Some(p);
            return rep;
        }
        let out = match outcome.result {
            Some(o) => o,
            None => {
                rep.discarded = Some("run cut short".into());
                return rep;
            }
        };
        if !out.setup_ok {
            rep.discarded = Some("setup_unstable".into());
            return rep;
        }
        for p in outcome.kernel.panics.iter() {
            rep.violations.push(Violation::new("panic", p.location.clone(), format!("{} at {}", p.message, p.location)));
        }
        rep.violations.extend(out.violations);
        rep.nontrivial = out.snapshots_run > 0;
        for (k, n) in out.states_seen {
            rep.counters.insert(format!("final_key_state_{}", k), n);
        }
        rep.case_hash = nundb_verif_rt::kernel::mix(hash_str(&rep.program.to_string()), outcome.kernel.switch_hash);
        rep
    }
    fn shrink(&self, _scenario: &str, program: &Json) -> Vec<Json> {
        let p: Program = match serde_json::from_value(program.clone()) {
            Ok(p) => p,
            Err(_) => return vec![],
        };
        let mut out = Vec::new();
        // drop suffixes first (cheap big steps), then single ops
        let n = p.ops.len();
        if n > 2 {
            out.push(serde_json::to_value(&Program { ops: p.ops[..n / 2].to_vec() }).unwrap());
            out.push(serde_json::to_value(&Program { ops: p.ops[n / 2..].to_vec() }).unwrap());
        }
        for i in 0..n {
            let mut q = p.clone();
            q.ops.remove(i);
            out.push(serde_json::to_value(&q).unwrap());
        }
        out
    }
}
