//! In-memory per-node disk with inode semantics (an open handle survives rename/unlink) and a
//! numbered crash point at every mutating call.  Crash model: process kill -- whatever a completed
//! call wrote survives, user-space buffers above this layer are lost.
use std::collections::{BTreeMap, BTreeSet};

#[derive(Clone, Debug)]
pub struct Inode {
    pub data: Vec<u8>,
    pub created: u64,
    pub nlink: u32,
}

#[derive(Clone, Debug, Default)]
pub struct Disk {
    pub inodes: Vec<Inode>,
    pub names: BTreeMap<String, usize>,
    pub dirs: BTreeSet<String>,
}

pub fn norm(p: &str) -> String {
    let mut parts: Vec<&str> = Vec::new();
    for seg in p.split('/') {
        match seg {
            "" | "." => {}
            ".." => {
                parts.pop();
            }
            s => parts.push(s),
        }
    }
    let s = parts.join("/");
    if p.starts_with('/') {
        format!("/{}", s)
    } else {
        s
    }
}

pub fn parent(p: &str) -> String {
    match p.rfind('/') {
        Some(0) => "/".to_string(),
        Some(i) => p[..i].to_string(),
        None => "".to_string(),
    }
}

impl Disk {
    pub fn new() -> Disk {
        let mut d = Disk::default();
        d.dirs.insert("".to_string());
        d.dirs.insert("/".to_string());
        d.dirs.insert("/tmp".to_string());
        d
    }
    pub fn dir_exists(&self, p: &str) -> bool {
        self.dirs.contains(p)
    }
    pub fn exists(&self, p: &str) -> bool {
        self.names.contains_key(p) || self.dirs.contains(p)
    }
    pub fn mkdir_all(&mut self, p: &str) {
        let mut cur = String::new();
        let abs = p.starts_with('/');
        for seg in p.split('/').filter(|s| !s.is_empty()) {
            if cur.is_empty() && !abs {
                cur = seg.to_string();
            } else {
                cur = format!("{}/{}", cur, seg);
            }
            self.dirs.insert(cur.clone());
        }
    }
    pub fn create(&mut self, p: &str, now: u64) -> usize {
        self.inodes.push(Inode { data: Vec::new(), created: now, nlink: 1 });
        let ino = self.inodes.len() - 1;
        self.names.insert(p.to_string(), ino);
        ino
    }
    pub fn unlink(&mut self, p: &str) -> bool {
        match self.names.remove(p) {
            Some(ino) => {
                self.inodes[ino].nlink = 0;
                true
            }
            None => false,
        }
    }
    pub fn rename(&mut self, from: &str, to: &str) -> bool {
        match self.names.remove(from) {
            Some(ino) => {
                if let Some(old) = self.names.insert(to.to_string(), ino) {
                    self.inodes[old].nlink = 0;
                }
                true
            }
            None => false,
        }
    }
    pub fn list(&self, dir: &str) -> Vec<String> {
        let prefix = if dir.is_empty() { String::new() } else { format!("{}/", dir) };
        let mut out = Vec::new();
        for name in self.names.keys() {
            if let Some(rest) = name.strip_prefix(&prefix) {
                if !rest.contains('/') && !rest.is_empty() {
                    out.push(rest.to_string());
                }
            }
        }
        for d in self.dirs.iter() {
            if let Some(rest) = d.strip_prefix(&prefix) {
                if !rest.contains('/') && !rest.is_empty() {
                    out.push(rest.to_string());
                }
            }
        }
        out
    }
    pub fn file(&self, p: &str) -> Option<&Vec<u8>> {
        self.names.get(p).map(|&i| &self.inodes[i].data)
    }
    /// A deep copy that drops unlinked inodes' contents (for snapshots of surviving state).
    pub fn snapshot(&self) -> Disk {
        self.clone()
    }
    pub fn digest(&self) -> u64 {
        let mut h = 0xcbf29ce484222325u64;
        for (n, &i) in self.names.iter() {
            for b in n.as_bytes() {
                h = (h ^ *b as u64).wrapping_mul(0x100000001b3);
            }
            for b in self.inodes[i].data.iter() {
                h = (h ^ *b as u64).wrapping_mul(0x100000001b3);
            }
            h = (h ^ 0xff).wrapping_mul(0x100000001b3);
        }
        h
    }
}
