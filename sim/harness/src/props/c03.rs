//! C03 -- watchers get every committed change, only committed changes, and end up current.
use crate::common::*;
use crate::kv::*;
use crate::world::*;
use nundb_verif_rt::kernel::Rng;
use nundb_verif_rt::sim::{run_sim, SimConfig};
use serde::{Deserialize, Serialize};
use serde_json::{json, Value as Json};
use std::sync::atomic::{AtomicU64, Ordering};
use std::sync::{Arc as StdArc, Mutex as StdMutex};

pub struct C03;

#[derive(Clone, Debug, Serialize, Deserialize, PartialEq)]
pub enum WOp {
    Set { key: String, val: String },
    /// delta relative to the version the writer reads just before (0 = accepted, -1 = refused unless raced)
    SetSafe { key: String, delta: i32, val: String },
    Inc { by: i32 },
    Remove { key: String },
    /// n plain writes of distinct values back to back (a subscriber that is not reading piles up more
    /// notifications than its channel's nominal capacity of 100)
    #[serde(rename = "Burst")]
    Burst { key: String, n: u32, val: String },
}

#[derive(Clone, Debug, Serialize, Deserialize, PartialEq)]
pub enum SOp {
    Watch { key: String },
    Unwatch { key: String },
    UnwatchAll,
    Disconnect,
    /// the session's connection handler dies without any clean-up (what a panicking connection thread leaves
    /// behind): its registrations stay, its receiving end is gone -- the other subscribers must not notice
    Vanish,
    /// let the writers make progress
    Pause,
    /// the session selects the database it already uses again (same credentials): nothing about its
    /// subscriptions may change
    Reselect,
}

#[derive(Clone, Debug, Serialize, Deserialize)]
pub struct Program {
    pub writers: Vec<Vec<WOp>>,
    pub subscribers: Vec<Vec<SOp>>,
    /// conflict strategy of the database: none or newer (a stale versioned write is then accepted)
    #[serde(default = "default_strategy")]
    pub strategy: String,
    /// scenario replicated: a 2-node cluster, the writer works on the primary, the subscribers are sessions
    /// of the secondary (they hear of replicated writes)
    #[serde(default)]
    pub replicated: bool,
}

fn default_strategy() -> String {
    "none".to_string()
}

const KEYS: [&str; 2] = ["a", "b"];
const NKEY: &str = "n";

fn gen(rng: &mut Rng) -> Program {
    // newer-strategy databases: one writer only (with two, a stale versioned write that loses the
    // resolution is acknowledged without being stored, so "acknowledged" would not imply "notified")
    // arbiter-strategy databases (one case in seven): an arbiter session is registered and never answers, so a
    // conflicting write is put aside (error reply) and the key keeps its value: nothing may be notified for it
    let strategy = match rng.below(7) {
        0 | 1 => "newer",
        2 => "arbiter",
        _ => "none",
    }
    .to_string();
    let nw = if strategy != "none" { 1 } else { rng.range(1, 2) as usize };
    let ns = rng.range(1, 2) as usize;
    let mut uniq = 0;
    let mut last_val: std::collections::BTreeMap<String, String> = std::collections::BTreeMap::new();
    let mut writers = Vec::new();
    for _ in 0..nw {
        let n = rng.range(1, 6) as usize;
        let mut ops = Vec::new();
        for _ in 0..n {
            let key = KEYS[rng.below(2) as usize].to_string();
            uniq += 1;
            // mostly unique values (attributable notifications); sometimes the value the key was given last
            let val = match last_val.get(&key) {
                Some(v) if rng.chance(1, 5) => v.clone(),
                _ => format!("w{}", uniq),
            };
            last_val.insert(key.clone(), val.clone());
            if rng.chance(1, 25) {
                ops.push(WOp::Burst { key, n: rng.range(40, 140) as u32, val: format!("b{}", uniq) });
                continue;
            }
            ops.push(match rng.below(10) {
                0..=3 => WOp::Set { key, val },
                4 | 5 => WOp::SetSafe { key, delta: 0, val },
                6 => WOp::SetSafe { key, delta: -1, val },
                7 | 8 => WOp::Inc { by: rng.range(1, 3) as i32 },
                _ => WOp::Remove { key },
            });
        }
        writers.push(ops);
    }
    let mut subscribers = Vec::new();
    for _ in 0..ns {
        let n = rng.range(1, 6) as usize;
        let mut ops = Vec::new();
        let mut watching: Vec<String> = Vec::new();
        let mut gone = false;
        for _ in 0..n {
            if gone {
                break;
            }
            let all = [KEYS[0], KEYS[1], NKEY];
            let key = all[rng.below(3) as usize].to_string();
            match rng.below(10) {
                0..=4 => {
                    if !watching.contains(&key) {
                        watching.push(key.clone());
                        ops.push(SOp::Watch { key });
                    } else if rng.chance(1, 3) {
                        // a second registration of the same key by the same session (notifications may then
                        // arrive more than once; one unwatch still ends the subscription)
                        ops.push(SOp::Watch { key });
                    } else if rng.chance(1, 2) {
                        ops.push(SOp::Reselect);
                    } else {
                        ops.push(SOp::Pause);
                    }
                }
                5 | 6 => {
                    watching.retain(|k| k != &key);
                    ops.push(SOp::Unwatch { key });
                }
                7 => {
                    watching.clear();
                    ops.push(SOp::UnwatchAll);
                }
                8 => ops.push(SOp::Pause),
                _ => {
                    watching.clear();
                    gone = true;
                    ops.push(if rng.chance(1, 3) { SOp::Vanish } else { SOp::Disconnect });
                }
            }
        }
        subscribers.push(ops);
    }
    Program { writers, subscribers, strategy, replicated: false }
}

/// scenario replicated: one writer on the primary (1-6 ops, no bursts), 1-2 subscribers on the secondary that
/// watch 1-3 keys before the writer starts and stay to the end
fn gen_replicated(rng: &mut Rng) -> Program {
    let strategy = if rng.chance(1, 3) { "newer" } else { "none" }.to_string();
    let mut uniq = 0;
    let mut last_val: std::collections::BTreeMap<String, String> = std::collections::BTreeMap::new();
    let n = rng.range(1, 6) as usize;
    let mut ops = Vec::new();
    for _ in 0..n {
        let key = KEYS[rng.below(2) as usize].to_string();
        uniq += 1;
        let val = match last_val.get(&key) {
            Some(v) if rng.chance(1, 5) => v.clone(),
            _ => format!("w{}", uniq),
        };
        last_val.insert(key.clone(), val.clone());
        ops.push(match rng.below(10) {
            0..=3 => WOp::Set { key, val },
            4 | 5 => WOp::SetSafe { key, delta: 0, val },
            6 => WOp::SetSafe { key, delta: -1, val },
            7 | 8 => WOp::Inc { by: rng.range(1, 3) as i32 },
            _ => WOp::Remove { key },
        });
    }
    let ns = rng.range(1, 2) as usize;
    let mut subscribers = Vec::new();
    for _ in 0..ns {
        let mut keys = vec![KEYS[0], KEYS[1], NKEY];
        rng.shuffle(&mut keys);
        let k = rng.range(1, 3) as usize;
        subscribers.push(keys[..k].iter().map(|k| SOp::Watch { key: k.to_string() }).collect());
    }
    Program { writers: vec![ops], subscribers, strategy, replicated: true }
}

#[derive(Clone, Debug)]
struct WRec {
    writer: usize,
    key: String,
    /// value the watchers would be told (for removes: empty)
    value: String,
    kind: &'static str,
    invoke: u64,
    ret: u64,
    ok: bool,
}

#[derive(Clone, Debug)]
struct SRec {
    op: SOp,
    invoke: u64,
    ret: u64,
}

struct Outcome {
    setup_ok: bool,
    wrecs: Vec<WRec>,
    srecs: Vec<Vec<SRec>>,
    notes: Vec<Vec<String>>,
    finals: Vec<(String, Option<String>)>,
    wire: bool,
    replicated: bool,
}

fn execute(prog: Program, wire: bool) -> Outcome {
    let mut out = Outcome { setup_ok: false, wrecs: vec![], srecs: vec![], notes: vec![], finals: vec![], wire, replicated: false };
    let replicated = prog.replicated;
    let w = World::new(if replicated { 2 } else { 1 });
    maybe_segment(3, false);
    let (dbs, mut admin) = if replicated {
        if w.form_cluster(1_300, 15_000) != Some(0) {
            return out;
        }
        let dbs = match w.dbs(0) {
            Some(d) => d,
            None => return out,
        };
        let mut admin = Session::admin(&dbs);
        if admin.exec(&format!("create-db d tok {}", prog.strategy)).resp.is_err() || admin.exec("use-db d tok").resp.is_err() {
            return out;
        }
        (dbs, admin)
    } else {
        match single_node_with_db(&w, "d", "tok", &prog.strategy) {
            Some(x) => x,
            None => return out,
        }
    };
    admin.exec("set a i0");
    admin.exec("set b i0");
    let mut _arbiter: Option<Session> = None;
    if prog.strategy == "arbiter" {
        let mut a = Session::admin(&dbs);
        a.exec("use-db d tok");
        a.exec("arbiter");
        _arbiter = Some(a);
    }
    if wire && !w.wait_listening(0, 1_000) {
        return out;
    }
    // where the subscribers live: this node, or the secondary
    let sub_node = if replicated { 1 } else { 0 };
    let sub_dbs = if replicated {
        if !w.settle(300, 8_000) {
            return out;
        }
        match w.dbs(1) {
            Some(d) => d,
            None => return out,
        }
    } else {
        dbs.clone()
    };
    out.setup_ok = true;
    // replicated: the writer starts when every subscriber has registered its watches
    let subs_ready = StdArc::new(AtomicU64::new(if replicated { prog.subscribers.len() as u64 } else { 0 }));
    let seq = StdArc::new(AtomicU64::new(1));
    let wrecs: StdArc<StdMutex<Vec<WRec>>> = StdArc::new(StdMutex::new(Vec::new()));
    // subscribers stay until every writer is done (however long the writers are descheduled)
    let writers_left = StdArc::new(AtomicU64::new(prog.writers.len() as u64));
    let mut whandles = Vec::new();
    for (wi, ops) in prog.writers.iter().cloned().enumerate() {
        let (dbs, seq, wrecs) = (dbs.clone(), seq.clone(), wrecs.clone());
        let writers_left_w = writers_left.clone();
        let subs_ready_w = subs_ready.clone();
        whandles.push(spawn_on_node(&w, 0, &format!("writer{}", wi), move || {
            wait_cond(20_000, 1, || subs_ready_w.load(Ordering::SeqCst) == 0);
            struct Done(StdArc<AtomicU64>);
            impl Drop for Done {
                fn drop(&mut self) {
                    self.0.fetch_sub(1, Ordering::SeqCst);
                }
            }
            let _done = Done(writers_left_w);
            let mut s = Session::new(&dbs);
            let _ = replicated;
            s.exec("use-db d tok");
            for op in ops {
                if let WOp::Burst { key, n, val } = &op {
                    for j in 0..*n {
                        let value = format!("{}_{}", val, j);
                        let invoke = seq.fetch_add(1, Ordering::SeqCst);
                        let r = s.exec(&format!("set {} {}", key, value));
                        let ret = seq.fetch_add(1, Ordering::SeqCst);
                        wrecs.lock().unwrap().push(WRec { writer: wi, key: key.clone(), value, kind: "set", invoke, ret, ok: !r.resp.is_err() });
                    }
                    continue;
                }
                let (key, value, kind, line) = match &op {
                    WOp::Burst { .. } => unreachable!(),
                    WOp::Set { key, val } => (key.clone(), val.clone(), "set", format!("set {} {}", key, val)),
                    WOp::SetSafe { key, delta, val } => {
                        let cur = parse_value_version(&s.exec(&format!("get-safe {}", key)).msgs).map(|x| x.0).unwrap_or(0);
                        (key.clone(), val.clone(), "set-safe", format!("set-safe {} {} {}", key, (cur + delta).max(0), val))
                    }
                    WOp::Inc { by } => (NKEY.to_string(), String::new(), "increment", format!("increment {} {}", NKEY, by)),
                    WOp::Remove { key } => (key.clone(), String::new(), "remove", format!("remove {}", key)),
                };
                let invoke = seq.fetch_add(1, Ordering::SeqCst);
                let r = s.exec(&line);
                let ret = seq.fetch_add(1, Ordering::SeqCst);
                wrecs.lock().unwrap().push(WRec { writer: wi, key, value, kind, invoke, ret, ok: !r.resp.is_err() });
            }
        }));
    }
    let srecs: Vec<StdArc<StdMutex<Vec<SRec>>>> = prog.subscribers.iter().map(|_| StdArc::new(StdMutex::new(Vec::new()))).collect();
    let notes: Vec<StdArc<StdMutex<Vec<String>>>> = prog.subscribers.iter().map(|_| StdArc::new(StdMutex::new(Vec::new()))).collect();
    let mut shandles = Vec::new();
    let tcp = w.nodes[0].tcp.clone();
    for (si, ops) in prog.subscribers.iter().cloned().enumerate() {
        let (dbs, seq, recs, nts, tcp) = (sub_dbs.clone(), seq.clone(), srecs[si].clone(), notes[si].clone(), tcp.clone());
        let writers_left_s = writers_left.clone();
        let subs_ready_s = subs_ready.clone();
        let w2 = World { nodes: w.nodes.clone() };
        let body = move || {
            if wire {
                let mut c = match WireClient::connect(&tcp) {
                    Some(c) => c,
                    None => return,
                };
                c.greeting(1_000);
                let take = |lines: Vec<String>, nts: &StdArc<StdMutex<Vec<String>>>| {
                    let mut g = nts.lock().unwrap();
                    for l in lines {
                        if l.starts_with("changed") || l.starts_with("removed") {
                            g.push(l);
                        }
                    }
                };
                take(c.request_lossy("use-db d tok", 2_000).0, &nts);
                for op in ops {
                    let invoke = seq.fetch_add(1, Ordering::SeqCst);
                    match &op {
                        SOp::Watch { key } => {
                            take(c.request_lossy(&format!("watch {}", key), 2_000).0, &nts);
                        }
                        SOp::Unwatch { key } => {
                            take(c.request_lossy(&format!("unwatch {}", key), 2_000).0, &nts);
                        }
                        SOp::UnwatchAll => {
                            take(c.request_lossy("unwatch-all", 2_000).0, &nts);
                        }
                        SOp::Disconnect | SOp::Vanish => {
                            // what was delivered up to now is read first (the handler polls its channel
                            // every 2 ms and may be descheduled): the session then goes away
                            take(c.request_lossy("get zz", 2_000).0, &nts);
                            c.close();
                        }
                        SOp::Pause => sleep_ms(3),
                        SOp::Reselect => {
                            take(c.request_lossy("use-db d tok", 2_000).0, &nts);
                        }
                    }
                    let ret = if matches!(op, SOp::Disconnect | SOp::Vanish) { u64::MAX } else { seq.fetch_add(1, Ordering::SeqCst) };
                    recs.lock().unwrap().push(SRec { op: op.clone(), invoke, ret });
                    if matches!(op, SOp::Disconnect | SOp::Vanish) {
                        return;
                    }
                }
                // stay connected until the writers are done, then collect what is left
                wait_cond(20_000, 5, || writers_left_s.load(Ordering::SeqCst) == 0);
                sleep_ms(60);
                take(c.request_lossy("get zz", 2_000).0, &nts);
            } else {
                let mut s = Session::new(&dbs);
                s.exec("use-db d tok");
                for op in ops {
                    let invoke = seq.fetch_add(1, Ordering::SeqCst);
                    let mut msgs = match &op {
                        SOp::Watch { key } => s.exec(&format!("watch {}", key)).msgs,
                        SOp::Unwatch { key } => s.exec(&format!("unwatch {}", key)).msgs,
                        SOp::UnwatchAll => s.exec("unwatch-all").msgs,
                        SOp::Disconnect => {
                            // what every transport does when the peer goes away
                            let m1 = s.exec("unwatch-all").msgs;
                            s.client.left(&s.dbs);
                            m1
                        }
                        SOp::Pause => {
                            nundb_verif_rt::stdx::thread::yield_now();
                            vec![]
                        }
                        SOp::Reselect => s.exec("use-db d tok").msgs,
                        SOp::Vanish => {
                            // what it had received so far is kept; then the receiving end goes away with no clean-up
                            let got = s.drain();
                            let dead = std::mem::replace(&mut s, Session::new(&dbs));
                            nundb_verif_rt::kernel::with(|k| k.fault("subscriber_vanished"));
                            drop(dead);
                            got
                        }
                    };
                    let ret = seq.fetch_add(1, Ordering::SeqCst);
                    recs.lock().unwrap().push(SRec { op: op.clone(), invoke, ret });
                    nts.lock().unwrap().append(&mut msgs);
                }
                if replicated {
                    subs_ready_s.fetch_sub(1, Ordering::SeqCst);
                }
                // keep the receiver alive until the writers are done
                wait_cond(20_000, 5, || writers_left_s.load(Ordering::SeqCst) == 0);
                sleep_ms(50);
                if replicated {
                    // ... and everything they wrote has been replicated
                    w2.settle(300, 8_000);
                }
                let mut rest = s.drain();
                nts.lock().unwrap().append(&mut rest);
            }
        };
        if wire {
            shandles.push(spawn_harness(&format!("sub{}", si), body));
        } else {
            shandles.push(spawn_on_node(&w, sub_node, &format!("sub{}", si), body));
        }
    }
    for h in whandles {
        let _ = h.join();
    }
    for h in shandles {
        let _ = h.join();
    }
    out.wrecs = wrecs.lock().unwrap().clone();
    out.srecs = srecs.iter().map(|r| r.lock().unwrap().clone()).collect();
    out.notes = notes.iter().map(|r| r.lock().unwrap().clone()).collect();
    let mut reader = if replicated {
        let mut r = Session::admin(&sub_dbs);
        r.exec("use-db d tok");
        r
    } else {
        admin
    };
    for k in [KEYS[0], KEYS[1], NKEY] {
        let v = parse_value(&reader.exec(&format!("get {}", k)).msgs);
        out.finals.push((k.to_string(), v));
    }
    out.replicated = replicated;
    out
}

/// subscription intervals of one subscriber for `key`: (watch invoke, watch ret, unsub invoke, unsub ret)
fn intervals(recs: &[SRec], key: &str) -> Vec<(u64, u64, u64, u64)> {
    let mut v = Vec::new();
    let mut open: Option<(u64, u64)> = None;
    for r in recs {
        match &r.op {
            SOp::Watch { key: k } if k == key => {
                if open.is_none() {
                    open = Some((r.invoke, r.ret));
                }
            }
            SOp::Unwatch { key: k } if k == key => {
                if let Some((a, b)) = open.take() {
                    v.push((a, b, r.invoke, r.ret));
                }
            }
            SOp::UnwatchAll | SOp::Disconnect | SOp::Vanish => {
                if let Some((a, b)) = open.take() {
                    v.push((a, b, r.invoke, r.ret));
                }
            }
            _ => {}
        }
    }
    if let Some((a, b)) = open {
        v.push((a, b, u64::MAX, u64::MAX));
    }
    v
}

/// the largest number of registrations of `key` the subscriber held at once (a session may watch a key it
/// already watches: every write may then be notified up to that many times)
fn multiplicity(recs: &[SRec], key: &str) -> usize {
    let mut cur = 0usize;
    let mut max = 1usize;
    for r in recs {
        match &r.op {
            SOp::Watch { key: k } if k == key => {
                cur += 1;
                max = max.max(cur);
            }
            SOp::Unwatch { key: k } if k == key => cur = 0,
            SOp::UnwatchAll | SOp::Disconnect | SOp::Vanish => cur = 0,
            _ => {}
        }
    }
    max
}

fn check(out: &Outcome) -> (Vec<Violation>, bool) {
    let mut viols = Vec::new();
    let mut nontrivial = false;
    let transport = if out.replicated {
        "replicated"
    } else if out.wire {
        "wire"
    } else {
        "direct"
    };
    for (si, recs) in out.srecs.iter().enumerate() {
        let notes = &out.notes[si];
        // well-formedness: every `changed k v` is followed by `changed-version k <ver> v`
        let lines: Vec<&str> = notes.iter().map(|s| s.trim_end_matches('\n')).collect();
        for (i, l) in lines.iter().enumerate() {
            if let Some(rest) = l.strip_prefix("changed ") {
                let mut it = rest.splitn(2, ' ');
                let k = it.next().unwrap_or("");
                let v = it.next().unwrap_or("");
                let ok = lines.get(i + 1).map(|n| {
                    n.strip_prefix("changed-version ").map(|r| {
                        let mut p = r.splitn(3, ' ');
                        p.next() == Some(k) && p.next().is_some() && p.next().unwrap_or("") == v
                    }) == Some(true)
                }) == Some(true);
                if !ok && !out.wire {
                    viols.push(Violation::new("notification-pair-broken", transport.to_string(), format!("subscriber {}: {:?} not followed by its changed-version line: {:?}", si, l, lines)));
                }
            }
        }
        for key in [KEYS[0], KEYS[1], NKEY] {
            let ivs = intervals(recs, key);
            let mult = multiplicity(recs, key);
            let unsub_kind = |ret: u64| -> String {
                for r in recs {
                    if r.ret == ret || (ret == u64::MAX && matches!(r.op, SOp::Disconnect | SOp::Vanish)) {
                        return match r.op {
                            SOp::Unwatch { .. } => "unwatch",
                            SOp::UnwatchAll => "unwatch-all",
                            SOp::Disconnect => "disconnect",
                            SOp::Vanish => "vanish",
                            _ => "watch",
                        }
                        .to_string();
                    }
                }
                "end".to_string()
            };
            // what other subscribers did (for the shape): any watch/unwatch/disconnect by someone else
            let others: Vec<&'static str> = out
                .srecs
                .iter()
                .enumerate()
                .filter(|(j, _)| *j != si)
                .flat_map(|(_, r)| r.iter())
                .map(|r| match r.op {
                    SOp::Watch { .. } => "watch",
                    SOp::Unwatch { .. } => "unwatch",
                    SOp::UnwatchAll => "unwatch-all",
                    SOp::Disconnect => "disconnect",
                    SOp::Vanish => "vanish",
                    SOp::Pause | SOp::Reselect => "",
                })
                .filter(|s| !s.is_empty())
                .collect();
            let mut oth: Vec<&str> = others.clone();
            oth.sort();
            oth.dedup();
            let other_shape = if oth.is_empty() { "alone".to_string() } else { oth.join("+") };
            let mut removes_inside = 0u64;
            let mut removes_maybe = 0u64;
            // writes grouped by the value they store: a value may be written more than once
            let mut by_value: std::collections::BTreeMap<String, Vec<&WRec>> = std::collections::BTreeMap::new();
            for wr in out.wrecs.iter().filter(|w| w.key == key) {
                // classification against the intervals
                let inside = ivs.iter().any(|(_, wret, uinv, _)| wr.invoke > *wret && wr.ret < *uinv);
                let touching = ivs.iter().any(|(winv, _, _, uret)| wr.ret > *winv && wr.invoke < *uret);
                if wr.kind == "remove" {
                    if wr.ok && inside {
                        removes_inside += 1;
                    }
                    if wr.ok && touching {
                        removes_maybe += 1;
                    }
                    continue;
                }
                if wr.kind == "increment" {
                    continue; // judged by count below
                }
                by_value.entry(wr.value.clone()).or_default().push(wr);
            }
            for (value, wrs) in by_value.iter() {
                let is_inside = |wr: &WRec| ivs.iter().any(|(_, wret, uinv, _)| wr.invoke > *wret && wr.ret < *uinv);
                let is_touching = |wr: &WRec| ivs.iter().any(|(winv, _, _, uret)| wr.ret > *winv && wr.invoke < *uret);
                let n = lines.iter().filter(|l| **l == format!("changed {} {}", key, value)).count();
                let ok: Vec<&&WRec> = wrs.iter().filter(|w| w.ok).collect();
                let inside_ok = ok.iter().filter(|w| is_inside(w)).count();
                let touching_ok = ok.iter().filter(|w| is_touching(w)).count();
                if inside_ok > 0 {
                    nontrivial = true;
                }
                let wr = wrs[0];
                let rep = if wrs.len() > 1 { ":repeated-value" } else { "" };
                if ok.is_empty() {
                    if n > 0 {
                        viols.push(Violation::new("refused-write-notified", format!("{}:{}", transport, wr.kind), format!("subscriber {} was told about the refused `{} {} .. {}`", si, wr.kind, key, value)));
                    }
                } else if n < inside_ok {
                    viols.push(Violation::new(
                        "notification-lost",
                        format!("{}:{}:{}{}", transport, wr.kind, other_shape, rep),
                        format!(
                            "subscriber {} watched {} during [{:?}] and {} accepted write(s) of value {:?} (first: writer {}'s `{} {} {}` [{}..{}]) ran entirely inside, but it got {} notifications (others did: {:?}); its lines: {:?}",
                            si, key, ivs, inside_ok, value, wr.writer, wr.kind, key, value, wr.invoke, wr.ret, n, oth, lines
                        ),
                    ));
                } else if touching_ok == 0 && n > 0 {
                    let first_inv = ok.iter().map(|w| w.invoke).min().unwrap_or(0);
                    let after = ivs.iter().map(|(_, _, _, uret)| *uret).filter(|u| *u < first_inv).max();
                    viols.push(Violation::new(
                        "notified-outside-subscription",
                        format!("{}:{}", transport, after.map(|u| unsub_kind(u)).unwrap_or_else(|| "never-watched".into())),
                        format!("subscriber {} got {} notification(s) for `{} {} {}` [{}..{}] although it was not subscribed then (intervals {:?})", si, n, wr.kind, key, value, wr.invoke, wr.ret, ivs),
                    ));
                } else if n > touching_ok * mult {
                    viols.push(Violation::new(
                        "notification-duplicated",
                        format!("{}:{}:{}{}", transport, wr.kind, other_shape, rep),
                        format!("subscriber {} got {} notifications for {} accepted write(s) of `{} {} {}` overlapping its subscription; its lines: {:?}", si, n, touching_ok, wr.kind, key, value, lines),
                    ));
                }
            }
            let removed_seen = lines.iter().filter(|l| **l == format!("removed {}", key)).count() as u64;
            if removed_seen < removes_inside || removed_seen > removes_maybe * mult as u64 {
                viols.push(Violation::new(
                    if removed_seen < removes_inside { "notification-lost" } else { "notified-outside-subscription" },
                    format!("{}:remove:{}", transport, other_shape),
                    format!("subscriber {} saw {} `removed {}` lines; removes entirely inside its subscription: {}, overlapping it at all: {}", si, removed_seen, key, removes_inside, removes_maybe),
                ));
            }
            if key == NKEY {
                let incs: Vec<&WRec> = out.wrecs.iter().filter(|w| w.kind == "increment" && w.ok).collect();
                let inside = incs.iter().filter(|wr| ivs.iter().any(|(_, wret, uinv, _)| wr.invoke > *wret && wr.ret < *uinv)).count();
                let maybe = incs.iter().filter(|wr| ivs.iter().any(|(winv, _, _, uret)| wr.ret > *winv && wr.invoke < *uret)).count();
                let seen = lines.iter().filter(|l| l.starts_with(&format!("changed {} ", NKEY))).count();
                // the counter only grows here (every increment is by 1..3): each committed increment
                // leaves a different total, so no two notifications may carry the same value, and a
                // subscription that covers every increment is told the total the key ends with
                let mut vals: Vec<&str> = lines.iter().filter_map(|l| l.strip_prefix(&format!("changed {} ", NKEY)[..])).collect();
                let n_vals = vals.len();
                vals.sort();
                vals.dedup();
                if vals.len() < n_vals && mult == 1 {
                    viols.push(Violation::new(
                        "notification-not-committed-value",
                        format!("{}:increment:{}", transport, if out.wrecs.iter().filter(|w| w.kind == "increment").map(|w| w.writer).collect::<std::collections::BTreeSet<_>>().len() > 1 { "two-writers" } else { "one-writer" }),
                        format!("subscriber {}: two increment notifications carry the same total although every increment changes it; its lines: {:?}", si, lines),
                    ));
                }
                let covered = !incs.is_empty() && inside == incs.len() && out.wrecs.iter().filter(|w| w.kind == "increment").all(|w| w.ok);
                if covered {
                    if let Some(f) = out.finals.iter().find(|f| f.0 == NKEY).and_then(|f| f.1.clone()) {
                        if !vals.iter().any(|v| *v == f) {
                            viols.push(Violation::new(
                                "notification-not-committed-value",
                                format!("{}:increment:final-total-missing", transport),
                                format!("subscriber {} watched {} during all {} increments; the key ends at {:?} but no notification carries that total: {:?}", si, NKEY, incs.len(), f, lines),
                            ));
                        }
                    }
                }
                if seen < inside || seen > maybe * mult {
                    viols.push(Violation::new(
                        if seen < inside { "notification-lost" } else { "notified-outside-subscription" },
                        format!("{}:increment:{}", transport, other_shape),
                        format!("subscriber {} saw {} increment notifications; increments inside its subscription: {}, overlapping: {}", si, seen, inside, maybe),
                    ));
                }
            }
            // final view: only for keys written with set / set-safe only, and a subscription that covers all writes
            if key != NKEY {
                let only_sets = out.wrecs.iter().filter(|w| w.key == key).all(|w| w.kind == "set" || w.kind == "set-safe");
                let last_write_ret = out.wrecs.iter().filter(|w| w.key == key && w.ok).map(|w| w.ret).max();
                let first_write_inv = out.wrecs.iter().filter(|w| w.key == key && w.ok).map(|w| w.invoke).min();
                let covers = match (ivs.first(), last_write_ret, first_write_inv) {
                    (Some((_, wret, uinv, _)), Some(lw), Some(fw)) if ivs.len() == 1 => *wret < fw && *uinv > lw,
                    _ => false,
                };
                if only_sets && covers {
                    let mut best: Option<(i64, String)> = None;
                    for l in lines.iter() {
                        if let Some(r) = l.strip_prefix("changed-version ") {
                            let mut p = r.splitn(3, ' ');
                            if p.next() == Some(key) {
                                if let (Some(ver), Some(val)) = (p.next().and_then(|v| v.parse::<i64>().ok()), p.next()) {
                                    if best.as_ref().map(|b| ver >= b.0).unwrap_or(true) {
                                        best = Some((ver, val.to_string()));
                                    }
                                }
                            }
                        }
                    }
                    let fin = out.finals.iter().find(|f| f.0 == key).and_then(|f| f.1.clone());
                    if let (Some((ver, val)), Some(f)) = (best, fin) {
                        if val != f {
                            viols.push(Violation::new(
                                "stale-final-view",
                                format!("{}:{}", transport, if out.wrecs.iter().filter(|w| w.key == key).map(|w| w.writer).collect::<std::collections::BTreeSet<_>>().len() > 1 { "two-writers" } else { "one-writer" }),
                                format!("subscriber {}: highest-versioned notification for {} is version {} value {:?} but the key holds {:?}", si, key, ver, val, f),
                            ));
                        }
                    }
                }
            }
        }
    }
    (viols, nontrivial)
}

impl Property for C03 {
    fn id(&self) -> &'static str {
        "C03"
    }
    fn scenarios(&self) -> Vec<(&'static str, u32)> {
        vec![("direct", 12), ("wire", 4), ("replicated", 1)]
    }
    fn budget(&self) -> (u64, u64) {
        (300_000, 6_000_000)
    }
    fn rule(&self) -> &'static str {
        "1-2 writer sessions (1-6 ops of {set,set-safe accepted/refused,increment,remove} on keys a,b and counter n, every written value unique) and 1-2 subscriber sessions (1-6 ops of {watch,unwatch,unwatch-all,disconnect,pause}, a session may register a key it already watches (notifications may then repeat, one unwatch ends the subscription) and may re-select its database) as concurrent tasks on a node booted by start_db; direct = process_request sessions (every lock a preemption point), wire = subscribers over the real TCP handler incl. its disconnect path. invoke/return stamped with a global sequence number. Scenario replicated: a 2-node cluster formed through the real protocol, one writer on the primary, 1-2 subscribers that are sessions of the secondary, watch 1-3 keys before the writer starts and stay until the cluster is quiet -- every accepted write must reach them once, with the committed value, as a replicated write. Non-trivial: some accepted write ran entirely inside a subscription. distinct = distinct (program, task-switch sequence)."
    }
    fn assumptions(&self) -> Vec<String> {
        vec![
            "a mutation overlapping a subscription boundary may or may not be notified; no order is required between notifications; changed + changed-version count as one".into(),
            "the version field of increment notifications is not constrained; removes and increments are judged by counts (their notifications are not attributable to one operation)".into(),
        ]
    }
    fn components(&self) -> Json {
        json!({"real": ["replication loop, links and rp handling (scenario replicated)", "process_request watch/unwatch/unwatch-all", "db_ops::unwatch_key/unwatch_all", "bo::Database::watch_key/notify_watchers/remove_value", "tcp_ops::handle_client disconnect path", "Client::left"],
               "simulated": ["threads/locks (shuttle)", "TCP"], "stub": []})
    }
    fn run_one(&self, scenario: &str, ctx: &RunCtx) -> RunReport {
        let mut rng = Rng::new(ctx.seed);
        let wire = scenario == "wire";
        let prog: Program = match &ctx.program {
            Some(p) => serde_json::from_value(p.clone()).expect("program"),
            None => {
                if scenario == "replicated" {
                    gen_replicated(&mut rng)
                } else {
                    gen(&mut rng)
                }
            }
        };
        let mut cfg = SimConfig::new(ctx.seed ^ 0xc03);
        if scenario == "replicated" {
            cfg.max_steps = 6_000_000;
        }
        cfg.policy = policy_for(Rng::new(ctx.seed ^ 0x9011c7).next_u64());
        cfg.trace = ctx.trace;
        let p2 = prog.clone();
        let outcome = run_sim(cfg, move || execute(p2, wire));
        clear_registry();
        let mut rep = RunReport { seed: ctx.seed, scenario: scenario.to_string(), ..Default::default() };
        rep.program = serde_json::to_value(&prog).unwrap();
        rep.absorb_kernel(&outcome.kernel);
        if let Some(p) = outcome.harness_panic {
            rep.harness_error = Some(p);
            return rep;
        }
        let out = match outcome.result {
            Some(o) => o,
            None => {
                rep.discarded = Some("run cut short".into());
                return rep;
            }
        };
        if !out.setup_ok {
            rep.discarded = Some("setup_unstable".into());
            return rep;
        }
        for p in outcome.kernel.panics.iter() {
            rep.violations.push(Violation::new("panic", p.location.clone(), format!("{} at {}", p.message, p.location)));
        }
        let (v, nt) = check(&out);
        rep.violations.extend(v);
        rep.nontrivial = nt;
        let max_notes = out.notes.iter().map(|n| n.len()).max().unwrap_or(0) as u64;
        rep.counters.insert("max_notifications_per_subscriber".into(), max_notes);
        rep.case_hash = nundb_verif_rt::kernel::mix(hash_str(&rep.program.to_string()), outcome.kernel.switch_hash);
        rep
    }
    fn shrink(&self, _scenario: &str, program: &Json) -> Vec<Json> {
        let p: Program = match serde_json::from_value(program.clone()) {
            Ok(p) => p,
            Err(_) => return vec![],
        };
        let mut out = Vec::new();
        for i in 0..p.writers.len() {
            if p.writers.len() > 1 {
                let mut q = p.clone();
                q.writers.remove(i);
                out.push(serde_json::to_value(&q).unwrap());
            }
            for j in 0..p.writers[i].len() {
                let mut q = p.clone();
                q.writers[i].remove(j);
                out.push(serde_json::to_value(&q).unwrap());
            }
        }
        for i in 0..p.subscribers.len() {
            if p.subscribers.len() > 1 {
                let mut q = p.clone();
                q.subscribers.remove(i);
                out.push(serde_json::to_value(&q).unwrap());
            }
            for j in 0..p.subscribers[i].len() {
                let mut q = p.clone();
                q.subscribers[i].remove(j);
                out.push(serde_json::to_value(&q).unwrap());
            }
        }
        out
    }
}
