//! C17 -- $connections equals the number of open sessions that selected the database.
use crate::common::*;
use crate::world::*;
use nundb_verif_rt::kernel::Rng;
use nundb_verif_rt::sim::{run_sim, SimConfig};
use serde::{Deserialize, Serialize};
use serde_json::{json, Value as Json};

pub struct C17;

#[derive(Clone, Copy, Debug, Serialize, Deserialize, PartialEq)]
pub enum Transport {
    Tcp,
    Ws,
}

#[derive(Clone, Copy, Debug, Serialize, Deserialize, PartialEq)]
pub enum Cred {
    Token,
    WrongToken,
    User,
    WrongDb,
}

#[derive(Clone, Debug, Serialize, Deserialize, PartialEq)]
pub enum Act {
    Connect,
    UseDb { db: usize, cred: Cred },
    /// a command that is refused (e.g. get of a secure key) -- must not disturb the count
    Refused,
    Disconnect {
        clean: bool,
        /// WebSocket, not clean: the connection ends with a frame the protocol layer rejects instead of
        /// a silent drop
        #[serde(default)]
        broken_frame: bool,
        /// TCP: the session watches a key that is written `busy` times just before it goes away, so
        /// that it leaves with notifications queued at the server and unread data on the wire
        #[serde(default)]
        busy: u32,
    },
    /// one HTTP request that selects the database and reads a key (its own short-lived session)
    Http { db: usize },
}

#[derive(Clone, Debug, Serialize, Deserialize)]
pub struct Program {
    pub transports: Vec<Transport>,
    pub events: Vec<(usize, Act)>,
    pub ndbs: usize,
    /// permission list of the user `u1` whose token some sessions log in with ("-" = no list at all): what a
    /// user may read or write has nothing to do with its session being counted
    #[serde(default = "default_perms")]
    pub user_perms: String,
}

fn default_perms() -> String {
    "rwix *".to_string()
}

const PERMS: [&str; 5] = ["rwix *", "rwix *", "r *", "rw data*", "-"];

fn gen(rng: &mut Rng, nsess: usize) -> Program {
    let ndbs = rng.range(1, 2) as usize;
    let transports: Vec<Transport> = (0..nsess).map(|_| if rng.chance(1, 3) { Transport::Ws } else { Transport::Tcp }).collect();
    let n = rng.range(2, 14) as usize;
    let mut events = Vec::new();
    let mut open = vec![false; nsess];
    for _ in 0..n {
        let s = rng.below(nsess as u64) as usize;
        let act = if !open[s] {
            if rng.chance(1, 6) {
                Act::Http { db: rng.below(ndbs as u64) as usize }
            } else {
                open[s] = true;
                Act::Connect
            }
        } else {
            match rng.below(10) {
                0..=4 => Act::UseDb {
                    db: rng.below(ndbs as u64) as usize,
                    cred: match rng.below(8) {
                        0 => Cred::WrongToken,
                        1 => Cred::User,
                        2 => Cred::WrongDb,
                        _ => Cred::Token,
                    },
                },
                5 => Act::Refused,
                6 => Act::Http { db: rng.below(ndbs as u64) as usize },
                _ => {
                    open[s] = false;
                    Act::Disconnect { clean: rng.chance(1, 2), broken_frame: rng.chance(1, 2), busy: if rng.chance(1, 3) { rng.range(2, 6) as u32 } else { 0 } }
                }
            }
        };
        events.push((s, act));
    }
    // burst ends: everybody leaves
    for s in 0..nsess {
        if open[s] {
            events.push((s, Act::Disconnect { clean: rng.chance(1, 2), broken_frame: rng.chance(1, 2), busy: if rng.chance(1, 3) { rng.range(2, 6) as u32 } else { 0 } }));
        }
    }
    Program { transports, events, ndbs, user_perms: PERMS[rng.below(PERMS.len() as u64) as usize].to_string() }
}

enum Conn {
    Tcp(WireClient),
    Ws(WsClient),
}

impl Conn {
    /// send one command and wait until the server has processed it
    fn command(&mut self, line: &str) -> bool {
        match self {
            Conn::Tcp(c) => c.request(line, 2_000).is_some(),
            Conn::Ws(c) => c.request(line, 2_000).is_some(),
        }
    }
}

const DBN: [&str; 2] = ["d", "e"];

struct Outcome {
    setup_ok: bool,
    violations: Vec<Violation>,
    checks: u64,
    max_open: u64,
}

struct Observer {
    c: WireClient,
    notes: Vec<String>,
}
impl Observer {
    fn get(&mut self) -> Option<String> {
        let lines = self.c.request("get $connections", 2_000)?;
        let mut val = None;
        for l in lines {
            if let Some(v) = l.strip_prefix("value ") {
                val = Some(v.trim().to_string());
            } else if let Some(v) = l.strip_prefix("changed $connections ") {
                self.notes.push(v.trim().to_string());
            }
        }
        val
    }
}

fn execute(prog: Program, concurrent: bool) -> Outcome {
    let mut out = Outcome { setup_ok: false, violations: vec![], checks: 0, max_open: 0 };
    let w = World::new(1);
    w.boot(0, "");
    if !w.wait_primary(0, 5_000) || !w.wait_listening(0, 1_000) {
        return out;
    }
    let dbs = match w.dbs(0) {
        Some(d) => d,
        None => return out,
    };
    for i in 0..prog.ndbs {
        // one admin session per database (selects exactly one database, then leaves)
        let mut admin = Session::admin(&dbs);
        if admin.exec(&format!("create-db {} tok{} none", DBN[i], i)).resp.is_err() {
            return out;
        }
        admin.exec(&format!("use-db {} tok{}", DBN[i], i));
        admin.exec("create-user u1 pw1");
        if prog.user_perms != "-" {
            admin.exec(&format!("set-permissions u1 {}", prog.user_perms));
        }
        admin.disconnect();
    }
    let tcp = w.nodes[0].tcp.clone();
    let ws = w.nodes[0].ws.clone();
    let http = w.nodes[0].http.clone();
    // wait for the ws / http listeners too
    wait_cond(1_000, 1, || nundb_verif_rt::kernel::with(|k| k.net.lookup(&ws).is_some() && k.net.lookup(&http).is_some()));
    // one observer per database: selects it (counts as one session) and watches $connections
    let mut observers: Vec<Observer> = Vec::new();
    for i in 0..prog.ndbs {
        let mut c = match WireClient::connect(&tcp) {
            Some(c) => c,
            None => return out,
        };
        if !c.greeting(1_000) {
            return out;
        }
        if c.request(&format!("use-db {} tok{}", DBN[i], i), 2_000).is_none() {
            return out;
        }
        if c.request("watch $connections", 2_000).is_none() {
            return out;
        }
        observers.push(Observer { c, notes: vec![] });
    }
    // baseline: direct admin session above selected each db once and left again
    let mut base: Vec<i64> = Vec::new();
    for o in observers.iter_mut() {
        match o.get().and_then(|v| v.parse::<i64>().ok()) {
            Some(v) => base.push(v),
            None => return out,
        }
    }
    out.setup_ok = true;
    for (i, b) in base.iter().enumerate() {
        if *b != 1 {
            out.violations.push(Violation::new("wrong-count", "baseline", format!("database {}: only the observer is connected but $connections = {}", DBN[i], b)));
            return out;
        }
    }

    let nsess = prog.transports.len();
    if concurrent {
        // every session runs its own events in its own task; only the end state is judged
        let mut handles = Vec::new();
        for s in 0..nsess {
            let evs: Vec<Act> = prog.events.iter().filter(|(x, _)| *x == s).map(|(_, a)| a.clone()).collect();
            let (tcp, ws, http, tr, ndbs) = (tcp.clone(), ws.clone(), http.clone(), prog.transports[s], prog.ndbs);
            handles.push(spawn_harness(&format!("sess{}", s), move || {
                let mut conn: Option<Conn> = None;
                for a in evs {
                    run_act(&mut conn, &a, tr, &tcp, &ws, &http, ndbs);
                }
                drop(conn);
            }));
        }
        for h in handles {
            let _ = h.join();
        }
        sleep_ms(30);
        for (i, o) in observers.iter_mut().enumerate() {
            let got = o.get();
            out.checks += 1;
            if got.as_deref() != Some("1") {
                out.violations.push(Violation::new(
                    "not-back-to-baseline",
                    "concurrent-burst",
                    format!("database {}: all sessions of the burst are gone but $connections = {:?} (1 = the observer)", DBN[i], got),
                ));
            }
        }
        check_panics(&mut out);
        return out;
    }

    // sequential: model after every event
    let mut conns: Vec<Option<Conn>> = (0..nsess).map(|_| None).collect();
    let mut selected: Vec<Option<usize>> = vec![None; nsess];
    let mut count: Vec<i64> = vec![1; prog.ndbs];
    let mut expected_notes: Vec<Vec<String>> = vec![vec![]; prog.ndbs];
    let mut last_shape = String::from("none");
    for (ei, (s, act)) in prog.events.iter().enumerate() {
        let before = count.clone();
        let mut shape = String::new();
        match act {
            Act::Connect => {
                if conns[*s].is_none() {
                    conns[*s] = open_conn(prog.transports[*s], &tcp, &ws);
                }
                shape = "connect".into();
            }
            Act::UseDb { db, cred } => {
                if let Some(c) = conns[*s].as_mut() {
                    let line = match cred {
                        Cred::Token => format!("use-db {} tok{}", DBN[*db], db),
                        Cred::WrongToken => format!("use-db {} nope", DBN[*db]),
                        Cred::User => format!("use-db {} u1 pw1", DBN[*db]),
                        Cred::WrongDb => "use-db nosuchdb tok".to_string(),
                    };
                    c.command(&line);
                    if matches!(cred, Cred::Token | Cred::User) {
                        shape = match selected[*s] {
                            None => "select-first".to_string(),
                            Some(o) if o == *db => "reselect-same-db".to_string(),
                            Some(_) => "switch-db".to_string(),
                        };
                        if let Some(o) = selected[*s] {
                            count[o] -= 1;
                        }
                        count[*db] += 1;
                        selected[*s] = Some(*db);
                    } else {
                        shape = "failed-use-db".into();
                    }
                }
            }
            Act::Refused => {
                if let Some(c) = conns[*s].as_mut() {
                    c.command("get $$token");
                    shape = "refused-command".into();
                }
            }
            Act::Disconnect { clean, broken_frame, busy } => {
                if let Some(mut c) = conns[*s].take() {
                    if let (Conn::Tcp(t), Some(db), true) = (&mut c, selected[*s], *busy > 0) {
                        t.request("watch busy", 2_000);
                        // written by the (already counted) observer of that database: no session comes or goes
                        for j in 0..*busy {
                            observers[db].c.request(&format!("set busy b{}", j), 2_000);
                        }
                    }
                    match c {
                        Conn::Tcp(mut t) => t.close(),
                        Conn::Ws(mut x) => {
                            if *clean {
                                x.close_clean()
                            } else if *broken_frame {
                                x.fail_with_broken_frame()
                            } else {
                                x.drop_abruptly()
                            }
                        }
                    }
                    if let Some(o) = selected[*s].take() {
                        count[o] -= 1;
                    }
                    shape = format!("disconnect-{:?}", prog.transports[*s]).to_lowercase();
                }
            }
            Act::Http { db } => {
                let _ = http_request(&http, &format!("use-db {} tok{}; get x", DBN[*db], db), 2_000);
                // the request's session came and went: two changes seen by watchers
                expected_notes[*db].push((count[*db] + 1).to_string());
                expected_notes[*db].push(count[*db].to_string());
                shape = "http-request".into();
            }
        }
        if shape.is_empty() {
            continue;
        }
        last_shape = shape.clone();
        for d in 0..prog.ndbs {
            if count[d] != before[d] {
                // a switch produces -1 on the old and +1 on the new database; a reselect of the same
                // database nets to zero and is not a change
                expected_notes[d].push(count[d].to_string());
            }
        }
        // quiescent point: the server has seen the disconnect after a few poll periods
        sleep_ms(12);
        let open_now = selected.iter().filter(|x| x.is_some()).count() as u64;
        out.max_open = out.max_open.max(open_now);
        for (d, o) in observers.iter_mut().enumerate() {
            let got = o.get();
            out.checks += 1;
            if got != Some(count[d].to_string()) {
                out.violations.push(Violation::new(
                    "wrong-count",
                    shape.clone(),
                    format!(
                        "event #{} {:?} of session {} ({:?}): database {} has {} open sessions (incl. the observer) but $connections = {:?}",
                        ei, act, s, prog.transports[*s], DBN[d], count[d], got
                    ),
                ));
                return finish(out);
            }
        }
    }
    // watchers saw each change
    sleep_ms(10);
    for (d, o) in observers.iter_mut().enumerate() {
        let _ = o.get();
        if o.notes != expected_notes[d] {
            out.violations.push(Violation::new(
                "watcher-missed-change",
                last_shape.clone(),
                format!("database {}: watcher of $connections saw {:?}, the changes were {:?}", DBN[d], o.notes, expected_notes[d]),
            ));
        }
    }
    finish(out)
}

fn finish(mut out: Outcome) -> Outcome {
    check_panics(&mut out);
    out
}

fn check_panics(out: &mut Outcome) {
    let panics = nundb_verif_rt::kernel::with(|k| k.panics.clone());
    for p in panics {
        out.violations.push(Violation::new("handler-panic", p.location.clone(), format!("{} at {}", p.message, p.location)));
    }
}

fn open_conn(tr: Transport, tcp: &str, ws: &str) -> Option<Conn> {
    match tr {
        Transport::Tcp => {
            let mut c = WireClient::connect(tcp)?;
            if !c.greeting(1_000) {
                return None;
            }
            Some(Conn::Tcp(c))
        }
        Transport::Ws => WsClient::connect(ws).map(Conn::Ws),
    }
}

fn run_act(conn: &mut Option<Conn>, a: &Act, tr: Transport, tcp: &str, ws: &str, http: &str, _ndbs: usize) {
    match a {
        Act::Connect => {
            if conn.is_none() {
                *conn = open_conn(tr, tcp, ws);
            }
        }
        Act::UseDb { db, cred } => {
            if let Some(c) = conn.as_mut() {
                let line = match cred {
                    Cred::Token => format!("use-db {} tok{}", DBN[*db], db),
                    Cred::WrongToken => format!("use-db {} nope", DBN[*db]),
                    Cred::User => format!("use-db {} u1 pw1", DBN[*db]),
                    Cred::WrongDb => "use-db nosuchdb tok".to_string(),
                };
                c.command(&line);
            }
        }
        Act::Refused => {
            if let Some(c) = conn.as_mut() {
                c.command("get $$token");
            }
        }
        Act::Disconnect { clean, broken_frame, .. } => {
            if let Some(c) = conn.take() {
                match c {
                    Conn::Tcp(mut t) => t.close(),
                    Conn::Ws(mut x) => {
                        if *clean {
                            x.close_clean()
                        } else {
                            x.drop_abruptly()
                        }
                    }
                }
            }
        }
        Act::Http { db } => {
            let _ = http_request(http, &format!("use-db {} tok{}; get x", DBN[*db], db), 2_000);
        }
    }
}

/// `burst-direct`: sessions select (and switch) databases at the same instant, then all disconnect at
/// the same instant; direct sessions, so that the handlers interleave at lock granularity.
#[derive(Clone, Debug, Serialize, Deserialize)]
pub struct Burst {
    pub ndbs: usize,
    /// (first database, database switched to afterwards)
    pub sessions: Vec<(usize, Option<usize>)>,
    /// while the sessions are open every database is snapshotted and the process is killed and started again:
    /// nobody is connected to the new process, whatever the snapshot recorded
    #[serde(default)]
    pub restart_with_sessions_open: bool,
}

fn gen_burst(rng: &mut Rng) -> Burst {
    let ndbs = rng.range(1, 2) as usize;
    let n = rng.range(2, 4) as usize;
    let sessions = (0..n).map(|_| (rng.below(ndbs as u64) as usize, if rng.chance(1, 3) { Some(rng.below(ndbs as u64) as usize) } else { None })).collect();
    Burst { ndbs, sessions, restart_with_sessions_open: rng.chance(1, 4) }
}

fn execute_burst(prog: Burst) -> Outcome {
    let mut out = Outcome { setup_ok: false, violations: vec![], checks: 0, max_open: 0 };
    let w = World::new(1);
    w.boot(0, "");
    if !w.wait_primary(0, 5_000) {
        return out;
    }
    let dbs = match w.dbs(0) {
        Some(d) => d,
        None => return out,
    };
    let mut observers: Vec<Session> = Vec::new();
    for i in 0..prog.ndbs {
        let mut admin = Session::admin(&dbs);
        if admin.exec(&format!("create-db {} tok{} none", DBN[i], i)).resp.is_err() {
            return out;
        }
        admin.disconnect();
        let mut o = Session::new(&dbs);
        if o.exec(&format!("use-db {} tok{}", DBN[i], i)).resp.is_err() {
            return out;
        }
        observers.push(o);
    }
    let read = |o: &mut Session| -> Option<i64> { crate::kv::parse_value(&o.exec("get $connections").msgs).and_then(|v| v.trim().parse::<i64>().ok()) };
    for o in observers.iter_mut() {
        if read(o) != Some(1) {
            return out;
        }
    }
    out.setup_ok = true;
    // phase 1: everybody selects at the same instant
    let mut handles = Vec::new();
    for (si, (first, switch)) in prog.sessions.iter().cloned().enumerate() {
        let d = dbs.clone();
        handles.push(spawn_on_node(&w, 0, &format!("burst{}", si), move || {
            let mut s = Session::new(&d);
            s.exec(&format!("use-db {} tok{}", DBN[first], first));
            if let Some(t) = switch {
                s.exec(&format!("use-db {} tok{}", DBN[t], t));
            }
            s
        }));
    }
    let mut sessions: Vec<Session> = Vec::new();
    for h in handles {
        match h.join() {
            Ok(s) => sessions.push(s),
            Err(_) => return out,
        }
    }
    out.max_open = sessions.len() as u64;
    let shape = format!("{}-sessions:{}", prog.sessions.len(), if prog.sessions.iter().any(|s| s.1.is_some()) { "with-switch" } else { "select-only" });
    for (i, o) in observers.iter_mut().enumerate() {
        let want = 1 + prog.sessions.iter().filter(|(f, sw)| sw.unwrap_or(*f) == i).count() as i64;
        let got = read(o);
        out.checks += 1;
        if got != Some(want) {
            out.violations.push(Violation::new(
                "wrong-count",
                format!("burst-joined:{}", shape),
                format!("database {}: {} sessions selected it at the same instant (plus the observer) but $connections = {:?}, expected {}", DBN[i], want - 1, got, want),
            ));
            return out;
        }
    }
    if prog.restart_with_sessions_open {
        let mut admin = Session::admin(&dbs);
        for i in 0..prog.ndbs {
            admin.exec(&format!("snapshot false {}", DBN[i]));
        }
        if !w.declutter_tick(0, 10_000) {
            return out;
        }
        w.kill(0);
        nundb_verif_rt::kernel::with(|k| k.fault("kill"));
        // (the sessions of the old process are gone with it)
        for s in sessions.into_iter() {
            std::mem::drop(s);
        }
        drop(admin);
        observers.clear();
        w.boot(0, "");
        if !w.wait_primary(0, 8_000) {
            out.violations.push(Violation::new("restart-failed", "burst".to_string(), "the node did not come back after the restart".to_string()));
            return out;
        }
        let dbs = match w.dbs(0) {
            Some(d) => d,
            None => return out,
        };
        for i in 0..prog.ndbs {
            let mut o = Session::new(&dbs);
            if o.exec(&format!("use-db {} tok{}", DBN[i], i)).resp.is_err() {
                out.violations.push(Violation::new("restart-failed", "burst:use-db".to_string(), format!("database {} cannot be selected after the restart", DBN[i])));
                return out;
            }
            let got = read(&mut o);
            out.checks += 1;
            if got != Some(1) {
                out.violations.push(Violation::new(
                    "wrong-count",
                    format!("after-restart:{}", shape),
                    format!("database {}: the process was restarted (snapshot taken while {} sessions had it selected); the first session of the new process reads $connections = {:?}, expected 1", DBN[i], prog.sessions.iter().filter(|(f, sw)| sw.unwrap_or(*f) == i).count() + 1, got),
                ));
                return out;
            }
            let mut second = Session::new(&dbs);
            second.exec(&format!("use-db {} tok{}", DBN[i], i));
            let two = read(&mut o);
            second.disconnect();
            let one = read(&mut o);
            out.checks += 1;
            if (two, one) != (Some(2), Some(1)) {
                out.violations.push(Violation::new(
                    "wrong-count",
                    format!("after-restart:{}:second-session", shape),
                    format!("database {} after the restart: a second session came and went, $connections read {:?} then {:?}, expected 2 then 1", DBN[i], two, one),
                ));
                return out;
            }
            observers.push(o);
        }
        check_panics(&mut out);
        return out;
    }
    // phase 2: everybody leaves at the same instant
    let mut handles = Vec::new();
    for (si, s) in sessions.into_iter().enumerate() {
        handles.push(spawn_on_node(&w, 0, &format!("leave{}", si), move || s.disconnect()));
    }
    for h in handles {
        let _ = h.join();
    }
    for (i, o) in observers.iter_mut().enumerate() {
        let got = read(o);
        out.checks += 1;
        if got != Some(1) {
            out.violations.push(Violation::new(
                "not-back-to-baseline",
                format!("burst-left:{}", shape),
                format!("database {}: all sessions of the burst are gone but $connections = {:?} (1 = the observer)", DBN[i], got),
            ));
        }
    }
    check_panics(&mut out);
    out
}

impl Property for C17 {
    fn id(&self) -> &'static str {
        "C17"
    }
    fn scenarios(&self) -> Vec<(&'static str, u32)> {
        vec![("sequential", 3), ("interleaved", 1), ("burst-direct", 2)]
    }
    fn budget(&self) -> (u64, u64) {
        (150_000, 3_000_000)
    }
    fn rule(&self) -> &'static str {
        "1-3 sessions over the real TCP / WebSocket / HTTP transports of a node booted by start_db (simulated wire), 2-14 events of {connect, use-db with token / wrong token / user token / unknown database (same database again or another one), refused command, disconnect (TCP close -- optionally with notifications of a watched key queued at the server and unread on the wire, so that the close is a reset --, WS close frame, WS abrupt drop, WS protocol error = on_error then on_close), one-shot HTTP request} over 1-2 databases; an observer session per database (counted) reads $connections after every event at a quiescent point and watches it; 'interleaved' runs the sessions as concurrent tasks and judges the end state; 'burst-direct' lets 2-4 direct sessions select (and switch) databases at the same instant, checks every counter, then lets them all leave at the same instant and checks again (handlers interleave at lock granularity). Non-trivial: a database was selected by at least one non-observer session. distinct = distinct (program, task-switch sequence)."
    }
    fn assumptions(&self) -> Vec<String> {
        vec![
            "compared at quiescent points only (12 ms of simulated time after each event; the TCP handler polls every 2 ms)".into(),
            "WebSocket and HTTP framing is the facade's length-prefixed framing; nun-db's handlers see whole messages as with the real crates".into(),
        ]
    }
    fn components(&self) -> Json {
        json!({"real": ["tcp_ops::handle_client", "ws_ops::Server handler", "http_ops worker loop", "process_request UseDb", "Client::left", "bo::Database::inc/dec_connections"],
               "simulated": ["TCP", "ws/tiny_http wire layers (facades)", "threads", "clock"], "stub": []})
    }
    fn run_one(&self, scenario: &str, ctx: &RunCtx) -> RunReport {
        let mut rng = Rng::new(ctx.seed);
        if scenario == "burst-direct" {
            let prog: Burst = match &ctx.program {
                Some(p) => serde_json::from_value(p.clone()).expect("program"),
                None => gen_burst(&mut rng),
            };
            let mut cfg = SimConfig::new(ctx.seed ^ 0xc17);
            cfg.policy = policy_for(Rng::new(ctx.seed ^ 0x9011c7).next_u64());
            cfg.trace = ctx.trace;
            let p2 = prog.clone();
            let outcome = run_sim(cfg, move || execute_burst(p2));
            clear_registry();
            let mut rep = RunReport { seed: ctx.seed, scenario: scenario.to_string(), ..Default::default() };
            rep.program = serde_json::to_value(&prog).unwrap();
            rep.absorb_kernel(&outcome.kernel);
            let switch_hash = outcome.kernel.switch_hash;
            if let Some(p) = outcome.harness_panic {
                rep.harness_error = Some(p);
                return rep;
            }
            match outcome.result {
                Some(o) if o.setup_ok => {
                    rep.violations.extend(o.violations);
                    rep.nontrivial = true;
                    rep.counters.insert("count_checks".into(), o.checks);
                }
                _ => rep.discarded = Some("setup_unstable".into()),
            }
            rep.case_hash = nundb_verif_rt::kernel::mix(hash_str(&rep.program.to_string()), switch_hash);
            return rep;
        }
        let concurrent = scenario == "interleaved";
        let prog: Program = match &ctx.program {
            Some(p) => serde_json::from_value(p.clone()).expect("program"),
            None => {
                let n = if concurrent { 2 } else { rng.range(1, 3) as usize };
                gen(&mut rng, n)
            }
        };
        let mut cfg = SimConfig::new(ctx.seed ^ 0xc17);
        cfg.policy = policy_for(Rng::new(ctx.seed ^ 0x9011c7).next_u64());
        cfg.trace = ctx.trace;
        let p2 = prog.clone();
        let outcome = run_sim(cfg, move || execute(p2, concurrent));
        clear_registry();
        let mut rep = RunReport { seed: ctx.seed, scenario: scenario.to_string(), ..Default::default() };
        rep.program = serde_json::to_value(&prog).unwrap();
        rep.absorb_kernel(&outcome.kernel);
        if let Some(p) = outcome.harness_panic {
            rep.harness_error = Some(p);
            return rep;
        }
        let out = match outcome.result {
            Some(o) => o,
            None => {
                rep.discarded = Some("run cut short".into());
                return rep;
            }
        };
        if !out.setup_ok {
            rep.discarded = Some("setup_unstable".into());
            return rep;
        }
        rep.violations.extend(out.violations);
        rep.nontrivial = prog.events.iter().any(|(_, a)| matches!(a, Act::UseDb { cred: Cred::Token | Cred::User, .. } | Act::Http { .. }));
        rep.counters.insert("count_checks".into(), out.checks);
        rep.case_hash = nundb_verif_rt::kernel::mix(hash_str(&rep.program.to_string()), outcome.kernel.switch_hash);
        rep
    }
    fn shrink(&self, _scenario: &str, program: &Json) -> Vec<Json> {
        let p: Program = match serde_json::from_value(program.clone()) {
            Ok(p) => p,
            Err(_) => return vec![],
        };
        let mut out = Vec::new();
        for i in 0..p.events.len() {
            let mut q = p.clone();
            q.events.remove(i);
            out.push(serde_json::to_value(&q).unwrap());
        }
        out
    }
}
