//! `tiny_http` facade: requests arrive as one length-prefixed frame (the body) over the simulated
//! TCP; the reply is one frame.  nun-db's real worker loops call `recv`/`respond`.
use crate::frame::{self, Frame};
use crate::kernel::{self, with, Wait};
use crate::stdx::net::{TcpListener, TcpStream};
use std::io::{self, Cursor};

pub struct Server {
    listener: TcpListener,
}

impl Server {
    pub fn http<A: crate::stdx::net::AsAddr>(addr: A) -> Result<Server, Box<dyn std::error::Error + Send + Sync + 'static>> {
        let listener = TcpListener::bind(addr)?;
        Ok(Server { listener })
    }
    pub fn recv(&self) -> io::Result<Request> {
        loop {
            let lid = self.listener.id();
            kernel::wait(Wait::Accept(lid), false);
            let pending = with(|k| !k.net.listeners[lid].queue.is_empty());
            if !pending {
                let open = with(|k| k.net.listeners[lid].open);
                if !open {
                    return Err(io::Error::new(io::ErrorKind::Other, "server closed"));
                }
                continue;
            }
            let (stream, _) = self.listener.accept()?;
            let mut buf = Vec::new();
            match frame::read_frame_blocking(stream.endpoint(), &mut buf, None) {
                Some(Frame::Data(body)) => return Ok(Request { stream, body: Cursor::new(body) }),
                _ => continue, // client went away before sending a request
            }
        }
    }
}

pub struct Request {
    stream: TcpStream,
    body: Cursor<Vec<u8>>,
}
impl Request {
    pub fn as_reader(&mut self) -> &mut dyn io::Read {
        &mut self.body
    }
    pub fn respond(self, r: Response) -> io::Result<()> {
        frame::write_frame(self.stream.endpoint(), &r.data)
            .map_err(|_| io::Error::new(io::ErrorKind::BrokenPipe, "Broken pipe"))
    }
}

pub struct Response {
    data: Vec<u8>,
}
impl Response {
    pub fn from_string<S: Into<String>>(s: S) -> Response {
        Response { data: s.into().into_bytes() }
    }
}
