#!/bin/bash
# Development tool: silence of the unchanged tree under other master seeds.
#   tools/seedsweep.sh <tier> <first seed> <last seed> [Cxx ...]
# Runs from whatever directory holds this script's parent (works in a `vp run` snapshot): evidence and
# replays of the sweep are written there, not into /verif.  One line per (seed, property).
set -u
HERE="$(cd "$(dirname "$0")/.." && pwd)"
TIER=$1; A=$2; B=$3; shift 3
PROPS="${*:-C01 C02 C03 C04 C05 C06 C07 C08 C09 C10 C11 C12 C13 C14 C15 C16 C17 C18 C19 C20}"
export NUNSIM_VERIF_DIR=$HERE CARGO_TARGET_DIR=$HERE/sim/target
cd $HERE || exit 2
./check --build || exit 2
mkdir -p $HERE/sweep
for s in $(seq $A $B); do
  for p in $PROPS; do
    out=$HERE/sweep/$p-$TIER-$s.log
    VERIF_SEED=$s ./sim/target/release/nunsim run $p $TIER > $out 2>&1
    code=$?
    echo "seed=$s $p $TIER exit=$code viol=$(grep -c '^VIOLATION' $out) known=$(grep -c '^KNOWN-FINDING' $out) $(grep -m1 -A1 '^VIOLATION' $out | tail -1 | cut -c1-160)"
  done
done
echo SWEEP-DONE
