//! `signal_hook` facade: SIGINT is delivered by the harness to a simulated node.
pub mod consts {
    pub const SIGINT: i32 = 2;
    pub const SIGTERM: i32 = 15;
}
pub mod iterator {
    use crate::kernel::{self, with, Wait};
    use std::borrow::Borrow;
    pub struct Signals {
        node: Option<u32>,
    }
    impl Signals {
        pub fn new<I, S>(_signals: I) -> std::io::Result<Signals>
        where
            I: IntoIterator<Item = S>,
            S: Borrow<i32>,
        {
            let id = kernel::me();
            let node = with(|k| k.meta(id).and_then(|m| m.node));
            Ok(Signals { node })
        }
        pub fn forever(&mut self) -> Forever<'_> {
            Forever { s: self }
        }
    }
    pub struct Forever<'a> {
        s: &'a mut Signals,
    }
    impl<'a> Iterator for Forever<'a> {
        type Item = i32;
        fn next(&mut self) -> Option<i32> {
            match self.s.node {
                Some(n) => {
                    kernel::wait(Wait::Signal(n), false);
                    with(|k| k.nodes[n as usize].sigint_pending = false);
                    Some(super::consts::SIGINT)
                }
                None => kernel::block_forever(),
            }
        }
    }
}
