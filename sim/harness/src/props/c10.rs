//! C10 -- no client input can crash a handler or wedge the node.
use crate::common::*;
use crate::world::*;
use nundb_verif_rt::kernel::{with, Rng};
use nundb_verif_rt::sim::{run_sim, SimConfig};
use serde::{Deserialize, Serialize};
use serde_json::{json, Value as Json};

pub struct C10;

#[derive(Clone, Copy, Debug, Serialize, Deserialize, PartialEq)]
pub enum Via {
    Tcp,
    Ws,
    Http,
}

#[derive(Clone, Debug, Serialize, Deserialize)]
pub struct Program {
    pub via: Via,
    /// the attacker authenticates as administrator first
    pub admin: bool,
    /// the attacker selects the probe database first
    pub select_db: bool,
    /// lines (lossy UTF-8 of the bytes actually sent is kept in `hex` when not valid UTF-8)
    pub lines: Vec<String>,
    /// raw byte lines (hex) sent after the text lines, TCP only
    pub raw_hex: Vec<String>,
    /// send every line `repeat` times without reading any reply (pipelining)
    pub repeat: u32,
    /// lines of a second (administrator) TCP connection; line i is sent at the same instant as the
    /// attacker's line i so that the two handlers interleave at lock granularity
    #[serde(default)]
    pub companion: Vec<String>,
    /// after every line the node's periodic background task (snapshots of the queued databases) runs once:
    /// what a command queued must not kill that service thread either
    #[serde(default)]
    pub ticks: bool,
    /// (with `ticks`) the first background snapshot meets a disk error when it opens a values file for writing (no
    /// space left): that thread's own failure is the environment's, but no client command may crash a handler or
    /// fail for other clients because of it
    #[serde(default)]
    pub disk_error: bool,
    /// the attacker's session works on an arbiter database of its own on which an arbiter is registered and the key
    /// `k` already waits for a resolution (the conflict queue paths)
    #[serde(default)]
    pub arbiter_db: bool,
}

pub const WORDS: [&str; 46] = [
    "ack", "arbiter", "auth", "cluster-state", "create-db", "create-user", "debug", "election", "get", "get-safe", "increment", "join",
    "keys", "leave", "ls", "metrics-state", "remove", "replicate", "replicate-increment", "replicate-join", "replicate-leave",
    "replicate-remove", "replicate-since", "replicate-snapshot", "resolve", "rp", "set", "set-primary", "set-safe", "set-secoundary",
    "snapshot", "unwatch", "unwatch-all", "use", "use-db", "watch", "list-commands", "set-permissions", "zzz", "", "SET", "election candidate",
    "election win", "debug force-election", "rp 1", "replicate-since-to",
];

const TOKENS: [&str; 50] = [
    "", "x", "k", "-1", "0", "1", "2147483647", "-2147483648", "2147483648", "18446744073709551615", "18446744073709551616",
    "340282366920938463463374607431768211455", "340282366920938463463374607431768211456", "$$token", "$$x", "$connections", "$conflicts",
    ";", "a;b", "ünï", "|", "true", "false", "*", "q", "tokq", "nosuch", "10.0.0.9:3014", "10.0.0.1:3014", "candidate", "win", "alive",
    "pending-ops", "list-dbs", "rwix", "r k*|w *", "abc def", "q|nosuch", "1e9", "+5", "nosuch|q", "nosuch|q|r", "q|nosuch|r", "q|r",
    "a/b", "../x", "x.keys", "c-nun.data", "arbiter", "a1",
];

/// well-formed lines that take the less common lock paths (database switch, creation, named snapshots)
const LINES: [&str; 35] = [
    "use-db r tokr", "use-db q tokq", "create-db c1 t1", "create-db c2 t2 newer", "snapshot false q r", "snapshot true q", "snapshot false",
    "keys", "set k v", "remove k", "increment n 1", "watch k", "unwatch-all", "create-user u1 pw", "debug list-dbs", "cluster-state",
    "replicate-since 10.0.0.1:3014 5", "replicate-since 10.0.0.1:3014 0",
    "set-safe k 2147483647 v", "set-safe k 2147483646 v", "snapshot false q", "create-db a/b t", "snapshot false a/b", "create-db a1 ta arbiter",
    "use-db a1 ta", "arbiter", "set-safe k 0 w", "set-safe k -1 w", "snapshot true q r", "remove n",
    // (the permission list and token of the user whose session probes the attacker's database: values no set-permissions writes)
    "set $$permission_$pu r", "set $$permission_$pu", "remove $$permission_$pu", "set $$user_pu", "set-permissions pu",
];

fn gen_line(rng: &mut Rng) -> String {
    if rng.chance(1, 40) {
        // a replication envelope inside a replication envelope inside ... (each level is handled by a recursive call)
        let depth = [2u64, 9, 120, 1_000, 4_000, 20_000][rng.below(6) as usize];
        let inner = ["get x", "set k v", "keys", "zzz", ""][rng.below(5) as usize];
        // (the handler strips line feeds around what an envelope carries: over WebSocket / HTTP a level may start with one)
        // (... or with a carriage return, which a front end that tolerates CR LF line ends may strip as well)
        let level = match rng.below(8) {
            0 | 1 => "rp 1 \n",
            2 => "rp 1 \r",
            3 => "rp 1 \r\n",
            _ => "rp 1 ",
        };
        return format!("{}{}", level.repeat(depth as usize), inner);
    }
    if rng.chance(1, 4) {
        return LINES[rng.below(LINES.len() as u64) as usize].to_string();
    }
    let w = WORDS[rng.below(WORDS.len() as u64) as usize];
    let n = rng.below(6);
    let mut s = w.to_string();
    for _ in 0..n {
        s.push(' ');
        if rng.chance(1, 20) {
            // long tokens, ASCII or multi-byte (2, 3 and 4 byte characters) so that every byte offset of
            // the line can fall inside a character
            let unit = ["a", "é", "漢", "😀", "aé", "a漢😀"][rng.below(6) as usize];
            let chars = if rng.chance(1, 2) { rng.range(60, 400) } else { rng.range(300, 5000) } as usize;
            s.push_str(&unit.repeat(chars / unit.chars().count().max(1)));
        } else {
            s.push_str(TOKENS[rng.below(TOKENS.len() as u64) as usize]);
        }
    }
    s
}

/// two administrator connections issuing well-formed commands at the same instants (lock paths)
fn gen_concurrent_admins(rng: &mut Rng) -> Program {
    let n = rng.range(1, 4) as usize;
    let pick = |rng: &mut Rng| LINES[rng.below(LINES.len() as u64) as usize].to_string();
    let lines: Vec<String> = (0..n).map(|_| pick(rng)).collect();
    let companion: Vec<String> = (0..n).map(|_| pick(rng)).collect();
    Program { via: Via::Tcp, admin: true, select_db: true, lines, raw_hex: vec![], repeat: 1, companion, ticks: rng.chance(1, 3), disk_error: false, arbiter_db: false }
}

fn gen(rng: &mut Rng) -> Program {
    let via = match rng.below(6) {
        0 => Via::Ws,
        1 => Via::Http,
        _ => Via::Tcp,
    };
    let n = rng.range(1, 4) as usize;
    let lines: Vec<String> = (0..n).map(|_| gen_line(rng)).collect();
    let mut raw_hex = Vec::new();
    if via != Via::Http && rng.chance(1, 8) {
        let len = rng.range(1, 40) as usize;
        let mut b: Vec<u8> = (0..len).map(|_| rng.below(256) as u8).collect();
        b.push(b'\n');
        raw_hex.push(b.iter().map(|x| format!("{:02x}", x)).collect());
    }
    let repeat = if rng.chance(1, 10) { rng.range(101, 260) as u32 } else { 1 };
    let companion: Vec<String> = if rng.chance(1, 2) { (0..n).map(|_| gen_line(rng)).collect() } else { vec![] };
    let ticks = rng.chance(1, 4);
    let disk_error = ticks && rng.chance(1, 3);
    let mut lines = lines;
    if disk_error {
        // something to snapshot, and commands that use the snapshot queue afterwards
        lines.insert(0, "snapshot false q".to_string());
        lines.push(["snapshot false q", "snapshot true q r", "replicate-snapshot q", "snapshot false"][rng.below(4) as usize].to_string());
    }
    let admin = if disk_error { true } else { rng.chance(1, 2) };
    let arbiter_db = !disk_error && rng.chance(1, 4);
    Program { via, admin, select_db: rng.chance(2, 3), lines, raw_hex, repeat, companion, ticks, disk_error, arbiter_db }
}

struct Outcome {
    setup_ok: bool,
    violations: Vec<Violation>,
    probes: u64,
}

fn command_word(line: &str) -> String {
    let mut it = line.split(' ');
    let w = it.next().unwrap_or("");
    match w {
        "election" | "debug" => format!("{} {}", w, it.next().unwrap_or("")),
        _ => w.to_string(),
    }
    .chars()
    .take(24)
    .collect()
}

/// probe: a fresh connection is accepted and a set/get round trip on the probe database works
fn probe(tcp: &str, n: u64) -> Result<(), String> {
    let mut c = WireClient::connect(tcp).ok_or("connection refused")?;
    if !c.greeting(2_000) {
        return Err("no greeting".into());
    }
    c.request("use-db p tokp", 2_000).ok_or("use-db got no reply")?;
    c.request(&format!("set probe v{}", n), 2_000).ok_or("set got no reply")?;
    let lines = c.request("get probe", 2_000).ok_or("get got no reply")?;
    let want = format!("value v{}", n);
    if lines.iter().any(|l| l.trim_end() == want) {
        Ok(())
    } else {
        Err(format!("get probe answered {:?}", lines))
    }
}

fn execute(prog: Program) -> Outcome {
    let mut out = Outcome { setup_ok: false, violations: vec![], probes: 0 };
    let w = World::new(1);
    maybe_segment(3, false);
    w.boot(0, "");
    if !w.wait_primary(0, 5_000) || !w.wait_listening(0, 1_000) {
        return out;
    }
    let dbs = match w.dbs(0) {
        Some(d) => d,
        None => return out,
    };
    {
        let mut admin = Session::admin(&dbs);
        if admin.exec("create-db p tokp none").resp.is_err() {
            return out;
        }
        admin.exec("use-db p tokp");
        admin.exec("set probe v0");
        admin.disconnect();
        // the attacker's own database (an administrator may legitimately ruin it)
        let mut admin = Session::admin(&dbs);
        admin.exec("create-db q tokq none");
        admin.exec("use-db q tokq");
        admin.exec("set n 2147483640");
        admin.exec("set k 1");
        admin.exec("set x abc");
        admin.exec("create-db r tokr none");
        admin.exec("create-user pu pupw");
        admin.exec("set-permissions pu rwix *");
        admin.disconnect();
    }
    // (kept open for the whole run: the registered arbiter of the attacker's arbiter database)
    let mut _arbiter: Option<Session> = None;
    if prog.arbiter_db {
        let mut a = Session::admin(&dbs);
        a.exec("create-db z tokz arbiter");
        a.exec("use-db z tokz");
        a.exec("arbiter");
        a.exec("set-safe k 0 a");
        a.exec("set-safe k 0 b");
        a.exec("set n 5");
        _arbiter = Some(a);
    }
    let (tcp, ws, http) = (w.nodes[0].tcp.clone(), w.nodes[0].ws.clone(), w.nodes[0].http.clone());
    wait_cond(1_000, 1, || with(|k| k.net.lookup(&ws).is_some() && k.net.lookup(&http).is_some()));
    if probe(&tcp, 0).is_err() {
        return out;
    }
    out.setup_ok = true;
    let mut prelude: Vec<String> = Vec::new();
    if prog.admin {
        prelude.push(format!("auth {} {}", USER, PWD));
    }
    if prog.select_db {
        prelude.push(if prog.arbiter_db { "use-db z tokz" } else { "use-db q tokq" }.to_string());
    }
    let mut seen_panics = 0usize;
    let mut disk_error_armed = false;
    let mut check = |out: &mut Outcome, line: &str, n: u64| -> bool {
        // give the node time to work (elections started by admin commands take a while)
        sleep_ms(20);
        // a user-token session on the attacker's database (its replies are the attacker's business, a panic of its handler is not)
        if let Some(mut u) = WireClient::connect(&tcp) {
            u.greeting(500);
            u.request("use-db q pu pupw", 500);
            u.request("get k", 500);
            u.request("set k 2", 500);
            u.close();
        }
        if prog.ticks {
            if prog.disk_error && !disk_error_armed {
                disk_error_armed = true;
                let idx = w.nodes[0].idx;
                with(|k| k.nodes[idx as usize].fail_open = Some("-nun.data".to_string()));
            }
            let before = with(|k| k.panics.len());
            // a tick that does not come back is a dead (panicked) or stuck background thread: the panic list / the
            // probe below says which
            w.declutter_tick(0, 3_000);
            if prog.disk_error {
                // the background thread's own death on the injected disk error is not a client's doing
                let idx = w.nodes[0].idx;
                let fired = with(|k| k.nodes[idx as usize].fail_open.is_none());
                let now = with(|k| k.panics.clone());
                if fired && now.len() > before && seen_panics == before && now[before..].iter().all(|p| p.message.contains("injected")) {
                    seen_panics = now.len();
                }
            }
        }
        let panics = with(|k| k.panics.clone());
        if panics.len() > seen_panics {
            for p in panics[seen_panics..].iter() {
                out.violations.push(Violation::new(
                    "handler-panic",
                    format!("{}:{}", p.location.rsplit('/').next().unwrap_or(&p.location), command_word(line)),
                    format!("line {:?} (admin={}, via {:?}, x{}): task {} panicked: {} at {}", short(line), prog.admin, prog.via, prog.repeat, p.task, p.message, p.location),
                ));
            }
            seen_panics = panics.len();
            return false;
        }
        out.probes += 1;
        let mut r = probe(&tcp, n);
        if r.is_err() {
            // an election triggered by an administrative command may be in progress: retry once later
            sleep_ms(3_000);
            r = probe(&tcp, n + 1_000_000);
        }
        if let Err(e) = r {
            out.violations.push(Violation::new(
                "wedged",
                format!("probe:{}", command_word(line)),
                format!("after line {:?} (admin={}, via {:?}, x{}) the probe client fails: {}", short(line), prog.admin, prog.via, prog.repeat, e),
            ));
            return false;
        }
        true
    };
    let mut comp: Option<WireClient> = None;
    if !prog.companion.is_empty() {
        if let Some(mut cc) = WireClient::connect(&tcp) {
            cc.greeting(1_000);
            cc.request(&format!("auth {} {}", USER, PWD), 2_000);
            cc.request("use-db q tokq", 2_000);
            comp = Some(cc);
        }
    }
    let mut companion_send = |i: usize| {
        if let (Some(cc), Some(l)) = (comp.as_mut(), prog.companion.get(i)) {
            cc.send_line(l);
        }
    };
    match prog.via {
        Via::Tcp => {
            let mut c = match WireClient::connect(&tcp) {
                Some(c) => c,
                None => return out,
            };
            c.greeting(1_000);
            for l in prelude.iter() {
                c.request(l, 2_000);
            }
            let mut n = 1;
            for (i, l) in prog.lines.iter().enumerate() {
                set_abort_context(&format!("tcp:{}{}", command_word(l), prog.companion.get(i).map(|c| format!("+{}", command_word(c))).unwrap_or_default()));
                for _ in 0..prog.repeat {
                    c.send_line(l);
                }
                companion_send(i);
                n += 1;
                if !check(&mut out, l, n) {
                    return out;
                }
            }
            for h in prog.raw_hex.iter() {
                let bytes: Vec<u8> = (0..h.len() / 2).map(|i| u8::from_str_radix(&h[2 * i..2 * i + 2], 16).unwrap_or(0)).collect();
                c.send_raw(&bytes);
                n += 1;
                if !check(&mut out, &format!("<raw {}>", h), n) {
                    return out;
                }
            }
            // (the session ends while the companion creates a database: the clean-up of a session and a writer of the
            //  databases map at the same instant)
            if let Some(cc) = comp.as_mut() {
                cc.send_line(&format!("create-db cx{} tx", n));
            }
            c.close();
            sleep_ms(10);
            check(&mut out, "<disconnect>", n + 1);
        }
        Via::Ws => {
            let mut c = match WsClient::connect(&ws) {
                Some(c) => c,
                None => return out,
            };
            for l in prelude.iter() {
                c.request(l, 2_000);
            }
            let mut n = 1;
            for (i, l) in prog.lines.iter().enumerate() {
                set_abort_context(&format!("ws:{}{}", command_word(l), prog.companion.get(i).map(|c| format!("+{}", command_word(c))).unwrap_or_default()));
                for _ in 0..prog.repeat.min(120) {
                    c.send(l);
                }
                companion_send(i);
                n += 1;
                if !check(&mut out, l, n) {
                    return out;
                }
            }
            for h in prog.raw_hex.iter() {
                let bytes: Vec<u8> = (0..h.len() / 2).map(|i| u8::from_str_radix(&h[2 * i..2 * i + 2], 16).unwrap_or(0)).collect();
                c.send_bytes(&bytes);
                n += 1;
                if !check(&mut out, &format!("<binary frame {}>", h), n) {
                    return out;
                }
            }
            c.drop_abruptly();
            sleep_ms(10);
            check(&mut out, "<disconnect>", n + 1);
        }
        Via::Http => {
            let mut body = prelude.join(";");
            let mut n = 1;
            for (i, l) in prog.lines.iter().enumerate() {
                let b = if body.is_empty() { l.clone() } else { format!("{};{}", body, l) };
                set_abort_context(&format!("http:{}{}", command_word(l), prog.companion.get(i).map(|c| format!("+{}", command_word(c))).unwrap_or_default()));
                companion_send(i);
                let _ = http_request(&http, &b, 3_000);
                n += 1;
                if !check(&mut out, l, n) {
                    return out;
                }
                body = prelude.join(";");
            }
        }
    }
    out
}

fn short(s: &str) -> String {
    if s.len() > 120 {
        format!("{}...({} bytes)", s.chars().take(100).collect::<String>(), s.len())
    } else {
        s.to_string()
    }
}

impl Property for C10 {
    fn id(&self) -> &'static str {
        "C10"
    }
    fn scenarios(&self) -> Vec<(&'static str, u32)> {
        vec![("hostile-input", 3), ("concurrent-admins", 1)]
    }
    fn budget(&self) -> (u64, u64) {
        (200_000, 4_000_000)
    }
    fn rule(&self) -> &'static str {
        "1-4 lines of <command word known to the parser, unknown word, empty> + 0-5 tokens from a hostile alphabet (empty, i32/u64/u128 boundaries and beyond, non-numeric where a number is expected, $$ keys, ';', '|', very long tokens, non-ASCII, addresses) plus optional random raw bytes (incl. invalid UTF-8), sent over TCP, WebSocket or HTTP, unauthenticated or as administrator, with or without a selected database, optionally each line pipelined 101-260 times without reading replies, optionally with a second administrator connection whose i-th line is sent at the same instant as the attacker's i-th line (handlers interleave at lock granularity; half of the seeds model std's writer-preferring RwLock); after every line a second client opens a fresh connection and performs a set/get round trip. Non-trivial: the line parsed to a known command. distinct = distinct (program, task-switch sequence)."
    }
    fn assumptions(&self) -> Vec<String> {
        vec![
            "built with overflow checks on (the semantics of the repository's test profile); the Docker image's --release build wraps instead of panicking on i32 overflow".into(),
            "administrative cluster commands (join, leave, set-primary, election ...) are allowed to change the node's role; only panics, dead service threads and failing probes are judged".into(),
        ]
    }
    fn components(&self) -> Json {
        json!({"real": ["tcp_ops", "ws_ops handler", "http_ops", "parse_request", "process_request", "replication supervisor/loop", "election_ops"],
               "simulated": ["TCP", "ws/tiny_http wire layers", "threads", "clock"], "stub": []})
    }
    fn run_one(&self, scenario: &str, ctx: &RunCtx) -> RunReport {
        let mut rng = Rng::new(ctx.seed);
        let prog: Program = match &ctx.program {
            Some(p) => serde_json::from_value(p.clone()).expect("program"),
            None if scenario == "concurrent-admins" => gen_concurrent_admins(&mut rng),
            None => gen(&mut rng),
        };
        if std::env::var("NUNSIM_ECHO_PROGRAM").is_ok() {
            eprintln!("program: {}", serde_json::to_string(&prog).unwrap_or_default().chars().take(400000).collect::<String>());
        }
        let mut cfg = SimConfig::new(ctx.seed ^ 0xc10);
        cfg.policy = policy_for(Rng::new(ctx.seed ^ 0x9011c7).next_u64());
        cfg.trace = ctx.trace;
        // what std gives a spawned thread (the connection handlers): a recursion that overflows it here overflows it there
        cfg.stack_size = 2 << 20;
        let p2 = prog.clone();
        let outcome = run_sim(cfg, move || execute(p2));
        set_abort_context("");
        clear_registry();
        let mut rep = RunReport { seed: ctx.seed, scenario: scenario.to_string(), ..Default::default() };
        rep.program = serde_json::to_value(&prog).unwrap();
        rep.absorb_kernel(&outcome.kernel);
        if let Some(p) = outcome.harness_panic {
            rep.harness_error = Some(p);
            return rep;
        }
        let out = match outcome.result {
            Some(o) => o,
            None => {
                rep.discarded = Some("run cut short".into());
                return rep;
            }
        };
        if !out.setup_ok {
            rep.discarded = Some("setup_unstable".into());
            return rep;
        }
        rep.violations.extend(out.violations);
        rep.nontrivial = prog.lines.iter().any(|l| {
            let w = l.split(' ').next().unwrap_or("");
            !w.is_empty() && w != "zzz" && w != "SET"
        });
        rep.counters.insert("probes".into(), out.probes);
        rep.case_hash = nundb_verif_rt::kernel::mix(hash_str(&rep.program.to_string()), outcome.kernel.switch_hash);
        rep
    }
    fn shrink(&self, _scenario: &str, program: &Json) -> Vec<Json> {
        let p: Program = match serde_json::from_value(program.clone()) {
            Ok(p) => p,
            Err(_) => return vec![],
        };
        let mut out = Vec::new();
        for i in 0..p.lines.len() {
            if p.lines.len() > 1 || !p.raw_hex.is_empty() {
                let mut q = p.clone();
                q.lines.remove(i);
                out.push(serde_json::to_value(&q).unwrap());
            }
        }
        if !p.raw_hex.is_empty() {
            let mut q = p.clone();
            q.raw_hex.clear();
            out.push(serde_json::to_value(&q).unwrap());
        }
        if p.repeat > 1 {
            let mut q = p.clone();
            q.repeat = 1;
            out.push(serde_json::to_value(&q).unwrap());
        }
        if p.ticks && !p.disk_error {
            let mut q = p.clone();
            q.ticks = false;
            out.push(serde_json::to_value(&q).unwrap());
        }
        if p.disk_error {
            let mut q = p.clone();
            q.disk_error = false;
            out.push(serde_json::to_value(&q).unwrap());
        }
        if !p.companion.is_empty() {
            let mut q = p.clone();
            q.companion.clear();
            out.push(serde_json::to_value(&q).unwrap());
        }
        // fewer levels of nesting
        for i in 0..p.lines.len() {
            let depth = p.lines[i].matches("rp 1 ").count();
            if depth > 2 && p.lines[i].starts_with("rp 1 rp 1 ") {
                let mut q = p.clone();
                q.lines[i] = format!("{}{}", "rp 1 ".repeat(depth / 2), p.lines[i].trim_start_matches("rp 1 "));
                out.push(serde_json::to_value(&q).unwrap());
            }
        }
        for (flag, val) in [(0, false), (1, false)] {
            let mut q = p.clone();
            if flag == 0 && p.admin {
                q.admin = val;
                out.push(serde_json::to_value(&q).unwrap());
            } else if flag == 1 && p.select_db {
                q.select_db = val;
                out.push(serde_json::to_value(&q).unwrap());
            }
        }
        // drop trailing tokens of each line
        for i in 0..p.lines.len() {
            let parts: Vec<&str> = p.lines[i].split(' ').collect();
            if parts.len() > 1 {
                let mut q = p.clone();
                q.lines[i] = parts[..parts.len() - 1].join(" ");
                out.push(serde_json::to_value(&q).unwrap());
            }
        }
        out
    }
}
