//! `std::process` facade: `exit` stops the simulated node, not the harness.
use crate::kernel::{self, with};
pub use std::process::{abort, id, Child, Command, ExitStatus, Output, Stdio};

pub fn exit(code: i32) -> ! {
    let id = kernel::me();
    let node = with(|k| k.meta(id).and_then(|m| m.node));
    match node {
        Some(n) => {
            with(|k| {
                k.nodes[n as usize].exited = Some(code);
                k.kill_node(n);
            });
            kernel::block_forever()
        }
        None => panic!("process::exit({}) called outside of a node", code),
    }
}
