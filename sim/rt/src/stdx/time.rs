//! `std::time` facade: simulated wall clock (per node skew, strictly increasing per node) and a
//! side-effect-free monotonic clock.
use crate::kernel::{self, with};
pub use std::time::Duration;
use std::ops::{Add, Sub};

#[derive(Clone, Copy, Debug, PartialEq, Eq, PartialOrd, Ord, Hash)]
pub struct SystemTime(u64);

pub const UNIX_EPOCH: SystemTime = SystemTime(0);

#[derive(Clone, Debug)]
pub struct SystemTimeError(Duration);
impl SystemTimeError {
    pub fn duration(&self) -> Duration {
        self.0
    }
}
impl std::fmt::Display for SystemTimeError {
    fn fmt(&self, f: &mut std::fmt::Formatter<'_>) -> std::fmt::Result {
        write!(f, "second time provided was later than self")
    }
}
impl std::error::Error for SystemTimeError {}

impl SystemTime {
    pub const UNIX_EPOCH: SystemTime = SystemTime(0);
    pub fn from_ns(ns: u64) -> SystemTime {
        SystemTime(ns)
    }
    pub fn now() -> SystemTime {
        if !kernel::active() {
            return SystemTime(kernel::EPOCH_BASE_NS);
        }
        let id = kernel::me();
        let (t, preempt) = with(|k| {
            let t = k.systime_ns(id);
            let preempt = k.preempt_after_clock && !k.finished && k.no_preempt.is_none() && k.node_of(id).is_some();
            if preempt {
                k.fault("clock_preempt_point");
            }
            (t, preempt)
        });
        // never inside a tokio runtime context (the S3 strategies): the SDK's exchange is one atomic step of the
        // simulation, and tokio's per-thread context must not be seen by another simulated task
        if preempt && !std::thread::panicking() && tokio::runtime::Handle::try_current().is_err() {
            shuttle::thread::yield_now();
        }
        SystemTime(t)
    }
    pub fn duration_since(&self, earlier: SystemTime) -> Result<Duration, SystemTimeError> {
        if self.0 >= earlier.0 {
            Ok(Duration::from_nanos(self.0 - earlier.0))
        } else {
            Err(SystemTimeError(Duration::from_nanos(earlier.0 - self.0)))
        }
    }
    pub fn elapsed(&self) -> Result<Duration, SystemTimeError> {
        SystemTime::now().duration_since(*self)
    }
}
impl Add<Duration> for SystemTime {
    type Output = SystemTime;
    fn add(self, d: Duration) -> SystemTime {
        SystemTime(self.0 + d.as_nanos() as u64)
    }
}
impl Sub<Duration> for SystemTime {
    type Output = SystemTime;
    fn sub(self, d: Duration) -> SystemTime {
        SystemTime(self.0 - d.as_nanos() as u64)
    }
}

#[derive(Clone, Copy, Debug, PartialEq, Eq, PartialOrd, Ord, Hash)]
pub struct Instant(u64);
impl Instant {
    pub fn now() -> Instant {
        if !kernel::active() {
            return Instant(0);
        }
        Instant(with(|k| k.now))
    }
    pub fn elapsed(&self) -> Duration {
        Instant::now().duration_since(*self)
    }
    pub fn duration_since(&self, earlier: Instant) -> Duration {
        Duration::from_nanos(self.0.saturating_sub(earlier.0))
    }
    pub fn saturating_duration_since(&self, earlier: Instant) -> Duration {
        self.duration_since(earlier)
    }
    pub fn checked_add(&self, d: Duration) -> Option<Instant> {
        Some(Instant(self.0 + d.as_nanos() as u64))
    }
}
impl Add<Duration> for Instant {
    type Output = Instant;
    fn add(self, d: Duration) -> Instant {
        Instant(self.0 + d.as_nanos() as u64)
    }
}
impl Sub<Duration> for Instant {
    type Output = Instant;
    fn sub(self, d: Duration) -> Instant {
        Instant(self.0.saturating_sub(d.as_nanos() as u64))
    }
}
impl Sub<Instant> for Instant {
    type Output = Duration;
    fn sub(self, o: Instant) -> Duration {
        self.duration_since(o)
    }
}
