//! `timer` facade: repeating timers driven by simulated time; the harness can also force a tick
//! ("kick") so that the background snapshot lands at any chosen point.
use crate::kernel::{self, with, Wait};
use std::sync::atomic::{AtomicBool, Ordering};
use std::sync::Arc;

pub struct Timer;
pub struct Guard {
    cancel: Arc<AtomicBool>,
}
impl Drop for Guard {
    fn drop(&mut self) {
        self.cancel.store(true, Ordering::SeqCst);
    }
}
impl Guard {
    pub fn ignore(self) {
        std::mem::forget(self)
    }
}
impl Timer {
    pub fn new() -> Timer {
        Timer
    }
    pub fn schedule_repeating<F>(&self, repeat: chrono::Duration, mut cb: F) -> Guard
    where
        F: 'static + FnMut() + Send,
    {
        let cancel = Arc::new(AtomicBool::new(false));
        let c2 = cancel.clone();
        let period = repeat.num_nanoseconds().unwrap_or(i64::MAX / 4).max(1) as u64;
        crate::stdx::thread::spawn(move || {
            let id = kernel::me();
            let node = with(|k| k.meta(id).and_then(|m| m.node));
            loop {
                let t = kernel::now() + period;
                match node {
                    Some(n) => {
                        kernel::wait(Wait::Kick(n, t), false);
                        with(|k| {
                            let nd = &mut k.nodes[n as usize];
                            if nd.declutter_kick > 0 {
                                nd.declutter_kick -= 1;
                            }
                        });
                    }
                    None => kernel::wait(Wait::Until(t), true),
                }
                if c2.load(Ordering::SeqCst) {
                    break;
                }
                if let Some(n) = node {
                    with(|k| *k.ext.entry(format!("timer_started_{}", n)).or_insert(0) += 1);
                }
                cb();
                if let Some(n) = node {
                    with(|k| *k.ext.entry(format!("timer_fired_{}", n)).or_insert(0) += 1);
                }
            }
        });
        Guard { cancel }
    }
}
