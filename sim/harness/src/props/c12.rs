//! C12 -- the operation-log query never misses an operation.
//! A real primary writes the log through its real replication loop (rotation by the
//! NUN_MAX_OP_LOG_SIZE knob of the worker process, retention by the real declutter); at quiet
//! points the harness compares `read_operations_since` / `Oplog::last_op_time` with its own
//! linear scan of the same simulated files.
use crate::common::*;
use crate::world::*;
use nundb::disk_ops::{read_operations_since, Oplog};
use nundb_verif_rt::kernel::{with, Rng};
use nundb_verif_rt::sim::{run_sim, SimConfig};
use serde::{Deserialize, Serialize};
use serde_json::{json, Value as Json};
use std::collections::BTreeMap;

pub struct C12;

#[derive(Clone, Debug, Serialize, Deserialize, PartialEq)]
pub enum Since {
    Zero,
    BeforeFirst,
    /// time of the i-th record (modulo the number of records) plus delta
    Record { i: u32, delta: i32 },
    AfterLast,
}

#[derive(Clone, Debug, Serialize, Deserialize, PartialEq)]
pub enum Op {
    Set { db: usize, key: usize },
    Remove { db: usize, key: usize },
    CreateDb,
    Snapshot { db: usize },
    Sleep { ms: u32 },
    Query { since: Since },
    LastOpTime,
    Declutter,
    Restart,
    /// burst of n sets (forces rotations with a small log size)
    Burst { n: u32 },
}

#[derive(Clone, Debug, Serialize, Deserialize)]
pub struct Program {
    pub coarse_clock_us: u32,
    pub ops: Vec<Op>,
}

const KEYS: [&str; 3] = ["ka", "kb", "kc"];

fn gen(rng: &mut Rng, long: bool) -> Program {
    let n = if long { rng.range(20, 60) } else { rng.range(1, 14) } as usize;
    let mut ops = Vec::new();
    for _ in 0..n {
        ops.push(match rng.below(if long { 16 } else { 14 }) {
            0..=3 => Op::Set { db: rng.below(2) as usize, key: rng.below(3) as usize },
            4 | 5 => Op::Remove { db: rng.below(2) as usize, key: rng.below(3) as usize },
            6 => Op::CreateDb,
            7 => Op::Snapshot { db: rng.below(2) as usize },
            8 => Op::Sleep { ms: rng.range(1, 20) as u32 },
            9..=11 => Op::Query {
                since: match rng.below(8) {
                    0 => Since::Zero,
                    1 => Since::BeforeFirst,
                    2 => Since::AfterLast,
                    _ => Since::Record { i: rng.below(1000) as u32, delta: rng.range(0, 2) as i32 - 1 },
                },
            },
            12 => Op::LastOpTime,
            13 => {
                if rng.chance(1, 3) {
                    Op::Restart
                } else {
                    Op::Declutter
                }
            }
            _ => Op::Burst { n: rng.range(5, 60) as u32 },
        });
    }
    ops.push(Op::Query { since: Since::Record { i: rng.below(1000) as u32, delta: 0 } });
    ops.push(Op::LastOpTime);
    let coarse = if rng.chance(1, 5) { [1u32, 1000][rng.below(2) as usize] } else { 0 };
    Program { coarse_clock_us: coarse, ops }
}

#[derive(Clone, Debug, PartialEq)]
pub struct Rec {
    pub time: u64,
    pub key: u64,
    pub db: u64,
    pub op: u8,
}

/// Quiet point: the replication loop has logged everything it was handed (the log files stop growing
/// for 10 simulated ms -- longer than any single descheduling of a thread).
pub fn quiesce(idx: u32) {
    let mut stable = 0;
    let mut last = scan(idx).0.len();
    for _ in 0..400 {
        sleep_ms(5);
        let now = scan(idx).0.len();
        if now == last {
            stable += 1;
            if stable >= 2 {
                return;
            }
        } else {
            stable = 0;
            last = now;
        }
    }
}

/// All records in write order: rotated files by birth time (oldest first), then the current file.
pub fn scan(idx: u32) -> (Vec<Rec>, usize, Vec<Rec>) {
    with(|k| {
        let d = &k.nodes[idx as usize].disk;
        let mut files: Vec<(u64, String, usize)> = Vec::new();
        for (name, &ino) in d.names.iter() {
            if name.starts_with("dbs/oplog/") && name.ends_with(".op") {
                files.push((d.inodes[ino].created, name.clone(), ino));
            }
        }
        files.sort();
        let nfiles = files.len();
        let mut all = Vec::new();
        let parse = |data: &Vec<u8>, out: &mut Vec<Rec>| {
            let mut i = 0;
            while i + 25 <= data.len() {
                let g = |o: usize| {
                    let mut a = [0u8; 8];
                    a.copy_from_slice(&data[i + o..i + o + 8]);
                    u64::from_le_bytes(a)
                };
                out.push(Rec { time: g(0), key: g(8), db: g(16), op: data[i + 24] });
                i += 25;
            }
        };
        for (_, _, ino) in files.iter() {
            parse(&d.inodes[*ino].data, &mut all);
        }
        let mut current = Vec::new();
        if let Some(&ino) = d.names.get("dbs/oplog-nun.op") {
            parse(&d.inodes[ino].data, &mut current);
        }
        all.extend(current.iter().cloned());
        (all, nfiles, current)
    })
}

fn kind_name(op: u8) -> &'static str {
    match op {
        0 => "update",
        1 => "remove",
        2 => "create-db",
        3 => "snapshot",
        _ => "update",
    }
}

struct Outcome {
    setup_ok: bool,
    violations: Vec<Violation>,
    queries: u64,
    max_files: usize,
    max_records: usize,
    rotations_seen: bool,
}

fn execute(prog: Program) -> Outcome {
    let mut out = Outcome { setup_ok: false, violations: vec![], queries: 0, max_files: 0, max_records: 0, rotations_seen: false };
    let w = World::new(1);
    let idx = w.nodes[0].idx;
    if prog.coarse_clock_us > 0 {
        with(|k| {
            k.nodes[idx as usize].coarse_clock_ns = prog.coarse_clock_us as u64 * 1000;
            k.fault("coarse_clock");
        });
    }
    w.boot(0, "");
    if !w.wait_primary(0, 5_000) {
        return out;
    }
    let mut dbs = match w.dbs(0) {
        Some(d) => d,
        None => return out,
    };
    let mut admin = Session::admin(&dbs);
    let mut ndbs = 0usize;
    for i in 0..2 {
        if admin.exec(&format!("create-db d{} tok none", i)).resp.is_err() {
            return out;
        }
        ndbs += 1;
    }
    out.setup_ok = true;
    let max_log: u64 = std::env::var("NUN_MAX_OP_LOG_SIZE").ok().and_then(|s| s.parse().ok()).unwrap_or(1073741824);
    let mut uniq = 0u32;
    let mut cur: Option<usize> = None;
    let mut last_total_written = 0usize;
    // what the files held at the previous quiet point: between declutters and restarts the log only grows
    let mut last_seen: Vec<Rec> = Vec::new();
    // (judged with the strict clock only: with the coarse clock of the simulator two rotations can fall
    // into one tick and get the same file name, which a nanosecond clock does not allow)
    let strict_clock = prog.coarse_clock_us == 0;
    fn only_grew(prev: &[Rec], now: &[Rec]) -> bool {
        // every record seen before is still there (as a multiset: with a coarse clock the write order
        // of two files born in the same tick is not defined)
        let mut have: BTreeMap<(u64, u64, u64, u8), i64> = BTreeMap::new();
        for r in now {
            *have.entry((r.time, r.key, r.db, r.op)).or_insert(0) += 1;
        }
        for r in prev {
            let e = have.entry((r.time, r.key, r.db, r.op)).or_insert(0);
            *e -= 1;
            if *e < 0 {
                return false;
            }
        }
        true
    }
    for (oi, op) in prog.ops.iter().enumerate() {
        let mut sel = |admin: &mut Session, db: usize, cur: &mut Option<usize>| {
            if *cur != Some(db) {
                admin.exec(&format!("use-db d{} tok", db));
                *cur = Some(db);
            }
        };
        match op {
            Op::Set { db, key } => {
                sel(&mut admin, *db, &mut cur);
                uniq += 1;
                admin.exec(&format!("set {} v{}", KEYS[*key], uniq));
            }
            Op::Remove { db, key } => {
                sel(&mut admin, *db, &mut cur);
                admin.exec(&format!("remove {}", KEYS[*key]));
            }
            Op::CreateDb => {
                if ndbs < 5 {
                    admin.exec(&format!("create-db d{} tok none", ndbs));
                    ndbs += 1;
                }
            }
            Op::Snapshot { db } => {
                sel(&mut admin, *db, &mut cur);
                admin.exec("snapshot false");
            }
            Op::Burst { n } => {
                sel(&mut admin, 0, &mut cur);
                for j in 0..*n {
                    uniq += 1;
                    admin.exec(&format!("set {} b{}", KEYS[(j % 3) as usize], uniq));
                    if j % 7 == 0 {
                        sleep_ms(1);
                    }
                }
            }
            Op::Sleep { ms } => sleep_ms(*ms as u64),
            Op::Declutter => {
                quiesce(idx);
                let (before, nfiles_before, _) = scan(idx);
                if strict_clock && !only_grew(&last_seen, &before) {
                    out.violations.push(Violation::new(
                        "records-vanished",
                        format!("before-declutter:{}", if nfiles_before >= 9 { "9+files" } else { "<9files" }),
                        format!("op #{}: {} records were in the log files at the previous quiet point, now {} and some of the earlier ones are gone (no declutter, no restart in between)", oi, last_seen.len(), before.len()),
                    ));
                    return out;
                }
                if !w.declutter_tick(0, 20_000) {
                    out.violations.push(Violation::new("declutter-stuck", "declutter", format!("op #{}", oi)));
                    return out;
                }
                quiesce(idx);
                let (after, nfiles, _) = scan(idx);
                last_seen = after.clone();
                // retention: what is left must be a suffix of what was there, and must still hold the
                // newest floor(max/25) records
                // rotation keeps the NEWEST records: whatever survives is a contiguous suffix of what was there
                if strict_clock {
                    let is_suffix = after.len() <= before.len()
                        && before[before.len() - after.len()..].iter().zip(after.iter()).all(|(a, b)| a.time == b.time && a.key == b.key && a.db == b.db && a.op == b.op);
                    if !is_suffix {
                        out.violations.push(Violation::new(
                            "retention-not-newest",
                            format!("{}", if nfiles_before >= 10 { "10+files" } else { "<10files" }),
                            format!(
                                "op #{}: declutter left {} of {} records ({} rotated files before) and they are not the newest ones: a record was dropped while an older one was kept",
                                oi,
                                after.len(),
                                before.len(),
                                nfiles_before
                            ),
                        ));
                        return out;
                    }
                }
                let keep = (max_log / 25) as usize;
                let must = before.len().min(keep);
                let tail_ok = after.len() >= must
                    && before[before.len() - must..]
                        .iter()
                        .zip(after[after.len() - must..].iter())
                        .all(|(a, b)| a.time == b.time && a.key == b.key && a.db == b.db && a.op == b.op);
                if !tail_ok {
                    out.violations.push(Violation::new(
                        "retention-dropped-recent",
                        {
                            // how much is missing: at most one file's worth (the shipped retention keeps
                            // 9 rotated files + the current one) or more
                            let per_file = ((max_log / 10) / 25 + 2) as usize;
                            let kept_of_must = after.len().min(must);
                            if must - kept_of_must <= per_file && after.len() + per_file >= must {
                                "short-by-at-most-one-file".to_string()
                            } else {
                                "short-by-more-than-one-file".to_string()
                            }
                        },
                        format!(
                            "op #{}: declutter left {} records, the newest {} of the {} before it are not all retained (max log size {} bytes)",
                            oi,
                            after.len(),
                            must,
                            before.len(),
                            max_log
                        ),
                    ));
                }
            }
            Op::Restart => {
                quiesce(idx);
                w.kill(0);
                w.boot(0, "");
                if !w.wait_primary(0, 8_000) {
                    let panic = with(|k| k.panics.last().map(|p| format!("{} at {}", p.message, p.location)));
                    out.violations.push(Violation::new("restart-failed", "restart", format!("op #{}: {:?}", oi, panic)));
                    return out;
                }
                dbs = match w.dbs(0) {
                    Some(d) => d,
                    None => return out,
                };
                admin = Session::admin(&dbs);
                cur = None;
                // databases that were never snapshotted are gone: recreate what is missing
                for i in 0..ndbs {
                    admin.exec(&format!("create-db d{} tok none", i));
                }
                quiesce(idx);
                last_seen = scan(idx).0;
            }
            Op::Query { since } => {
                quiesce(idx);
                let (all, nfiles, _current) = scan(idx);
                if strict_clock && !only_grew(&last_seen, &all) {
                    out.violations.push(Violation::new(
                        "records-vanished",
                        format!("query:{}", if nfiles >= 9 { "9+files" } else { "<9files" }),
                        format!("op #{}: {} records were in the log files at the previous quiet point, now {} and some of the earlier ones are gone (no declutter, no restart in between)", oi, last_seen.len(), all.len()),
                    ));
                    return out;
                }
                last_seen = all.clone();
                out.max_files = out.max_files.max(nfiles);
                out.max_records = out.max_records.max(all.len());
                if nfiles > 0 {
                    out.rotations_seen = true;
                }
                let (s, class) = match since {
                    Since::Zero => (0u64, "zero".to_string()),
                    Since::BeforeFirst => (all.first().map(|r| r.time.saturating_sub(5)).unwrap_or(1), "before-first".to_string()),
                    Since::AfterLast => (all.last().map(|r| r.time + 5).unwrap_or(1), "after-last".to_string()),
                    Since::Record { i, delta } => {
                        if all.is_empty() {
                            (1, "empty".to_string())
                        } else {
                            let j = *i as usize % all.len();
                            let pos = if j == 0 {
                                "first"
                            } else if j == all.len() - 1 {
                                "last"
                            } else {
                                "middle"
                            };
                            ((all[j].time as i64 + *delta as i64) as u64, format!("record-{}{:+}", pos, delta))
                        }
                    }
                };
                if s == 0 && !matches!(since, Since::Zero) {
                    continue;
                }
                let got: BTreeMap<String, u8> = spawn_on_node(&w, 0, "oplog-query", move || {
                    let m = read_operations_since(s);
                    let mut out = BTreeMap::new();
                    for (k, r) in m.iter() {
                        out.insert(k.clone(), r.opp.to_u8());
                    }
                    out
                })
                .join()
                .unwrap_or_default();
                out.queries += 1;
                // since = 0 is the protocol's "everything" request
                let mut want: BTreeMap<String, u8> = BTreeMap::new();
                for r in all.iter() {
                    if r.time >= s {
                        // create-db and snapshot records concern the database (they are written with
                        // the fixed key ids 1 and 2), every other record concerns its (database, key)
                        let k = match r.op {
                            2 => format!("{}_create_db", r.db),
                            3 => format!("{}_snapshot", r.db),
                            _ => format!("{}_{}", r.db, r.key),
                        };
                        want.insert(k, r.op);
                    }
                }
                let files = format!("{}:{}", if nfiles > 0 { "multi" } else { "single" }, class);
                let class = if prog.coarse_clock_us > 0 { "coarse-clock" } else { "strict-clock" };
                let missing: Vec<&String> = want.keys().filter(|k| !got.contains_key(*k)).collect();
                if !missing.is_empty() {
                    out.violations.push(Violation::new(
                        "missed-operation",
                        format!("{}:{}", class, files),
                        format!(
                            "op #{}: query since {} over {} records in {}+1 files misses {:?} (returned {} of {} keys)",
                            oi,
                            s,
                            all.len(),
                            nfiles,
                            missing,
                            got.len(),
                            want.len()
                        ),
                    ));
                } else {
                    let wrong: Vec<String> = want
                        .iter()
                        .filter(|(k, v)| got.get(*k) != Some(*v))
                        .map(|(k, v)| format!("{}: most recent record is {}, labelled {}", k, kind_name(*v), kind_name(*got.get(k).unwrap())))
                        .collect();
                    if !wrong.is_empty() {
                        out.violations.push(Violation::new(
                            "wrong-kind",
                            format!("{}:{}", class, files),
                            format!("op #{}: query since {}: {:?}", oi, s, wrong),
                        ));
                    }
                }
            }
            Op::LastOpTime => {
                quiesce(idx);
                let (all, nfiles, current) = scan(idx);
                let got: u64 = spawn_on_node(&w, 0, "last-op-time", move || Oplog::last_op_time()).join().unwrap_or(0);
                let want = all.last().map(|r| r.time).unwrap_or(0);
                out.queries += 1;
                if got != want {
                    out.violations.push(Violation::new(
                        "wrong-last-op-time",
                        format!("{}:{}", if current.is_empty() { "current-empty" } else { "current-nonempty" }, if nfiles > 0 { "multi" } else { "single" }),
                        format!("op #{}: last_op_time = {}, newest record has {} ({} records, {} rotated files)", oi, got, want, all.len(), nfiles),
                    ));
                }
            }
        }
        let _ = &mut last_total_written;
    }
    out
}

impl Property for C12 {
    fn id(&self) -> &'static str {
        "C12"
    }
    fn scenarios(&self) -> Vec<(&'static str, u32)> {
        vec![("short", 2), ("long", 1)]
    }
    fn budget(&self) -> (u64, u64) {
        (40_000, 1_000_000)
    }
    fn rule(&self) -> &'static str {
        "logs produced by the real replication loop from 1-14 (short) or 20-60 (long, with bursts of 5-60 writes) operations of {set,remove,create-db,snapshot} over 2-5 databases x 3 keys, with simulated-clock gaps, optional coarse clock (equal consecutive op ids), real rotation (NUN_MAX_OP_LOG_SIZE per worker in {500,2500,10000,default,1030,3330}), real declutter retention and restarts; queries with since in {0, before first, record time -1/0/+1, after last} and last_op_time are compared with a linear scan of the same files. Non-trivial: at least one query ran on a non-empty log. distinct = distinct programs x worker knob."
    }
    fn assumptions(&self) -> Vec<String> {
        vec![
            "the search routine is a pure function of file contents; simulation contributes the realistic producer (rotation, simulated birth times, retention, restart) -- stated honestly: input/history dominated".into(),
            "write order of rotated files = simulated birth time of the inode (preserved by rename, as on Linux)".into(),
        ]
    }
    fn components(&self) -> Json {
        json!({"real": ["replication loop + Oplog::try_write_op_log (rotation)", "read_operations_since", "Oplog::last_op_time", "declutter/remove_old_db_files", "start_db restart path"],
               "simulated": ["disk (birth times)", "clock (optionally coarse)", "timer"], "stub": []})
    }
    fn worker_env(&self, w: u64, _master: u64) -> Vec<(String, String)> {
        // (1030 and 3330: a tenth of the size -- the rotation threshold -- is not a multiple of the 25-byte record,
        //  as with the default size)
        let sizes = ["500", "2500", "10000", "1073741824", "1030", "3330"];
        vec![("NUN_MAX_OP_LOG_SIZE".to_string(), sizes[(w % 6) as usize].to_string())]
    }
    fn run_one(&self, scenario: &str, ctx: &RunCtx) -> RunReport {
        let mut rng = Rng::new(ctx.seed);
        let prog: Program = match &ctx.program {
            Some(p) => serde_json::from_value(p.clone()).expect("program"),
            None => gen(&mut rng, scenario == "long"),
        };
        let mut cfg = SimConfig::new(ctx.seed ^ 0xc12);
        cfg.policy = policy_for(Rng::new(ctx.seed ^ 0x9011c7).next_u64());
        cfg.trace = ctx.trace;
        let p2 = prog.clone();
        let outcome = run_sim(cfg, move || execute(p2));
        clear_registry();
        let mut rep = RunReport { seed: ctx.seed, scenario: scenario.to_string(), ..Default::default() };
        rep.program = serde_json::to_value(&prog).unwrap();
        rep.absorb_kernel(&outcome.kernel);
        if let Some(p) = outcome.harness_panic {
            rep.harness_error = Some(p);
            return rep;
        }
        let out = match outcome.result {
            Some(o) => o,
            None => {
                rep.discarded = Some("run cut short".into());
                return rep;
            }
        };
        if !out.setup_ok {
            rep.discarded = Some("setup_unstable".into());
            return rep;
        }
        if !out.violations.iter().any(|v| v.clause == "restart-failed") {
            for p in outcome.kernel.panics.iter() {
                rep.violations.push(Violation::new("panic", p.location.clone(), format!("{} at {}", p.message, p.location)));
            }
        }
        rep.violations.extend(out.violations);
        rep.nontrivial = out.queries > 0 && out.max_records > 0;
        rep.counters.insert("queries".into(), out.queries);
        rep.counters.insert("runs_with_rotated_files".into(), out.rotations_seen as u64);
        let e = rep.counters.entry("max_rotated_files".into()).or_insert(0);
        *e = (*e).max(out.max_files as u64);
        let knob = std::env::var("NUN_MAX_OP_LOG_SIZE").unwrap_or_default();
        rep.case_hash = nundb_verif_rt::kernel::mix(hash_str(&rep.program.to_string()), hash_str(&knob));
        rep
    }
    fn shrink(&self, _scenario: &str, program: &Json) -> Vec<Json> {
        let p: Program = match serde_json::from_value(program.clone()) {
            Ok(p) => p,
            Err(_) => return vec![],
        };
        let mut out = Vec::new();
        for i in 0..p.ops.len() {
            let mut q = p.clone();
            q.ops.remove(i);
            out.push(serde_json::to_value(&q).unwrap());
        }
        for i in 0..p.ops.len() {
            if let Op::Burst { n } = &p.ops[i] {
                if *n > 2 {
                    let mut q = p.clone();
                    q.ops[i] = Op::Burst { n: n / 2 };
                    out.push(serde_json::to_value(&q).unwrap());
                }
            }
        }
        if p.coarse_clock_us > 0 {
            let mut q = p.clone();
            q.coarse_clock_us = 0;
            out.push(serde_json::to_value(&q).unwrap());
        }
        out
    }
}
