#!/bin/bash
# tools/r3lane.sh <lane> <Cxx> <n> [checks...]   (round-3 helper: run checks against /tmp/r3/<Cxx>/out/m<n>/patch.diff;
# jobs of one lane are serialised by a lock, so they can be queued at any time)
L=$1; P=$2; N=$3; shift 3
CH="${*:-$P}"
mkdir -p /tmp/mut
flock /tmp/mut/lane$L.lock /verif/tools/mutlane.sh $L /tmp/r3/$P/out/m$N/patch.diff quick $CH 2>&1 | sed "s/^/$P-m$N /" >> ${R3RESULTS:-/tmp/r3/results.txt}
