#!/bin/bash
# Development tool: determinism self-test of every property's scenarios (each seed run twice in differently
# shaped process sets, event-log hashes compared). Writes /verif/DETERMINISM.txt.
cd /verif && ./check --build || exit 2
OUT=/verif/DETERMINISM.txt; : > $OUT.new
for p in C01 C02 C03 C04 C05 C06 C07 C08 C09 C10 C11 C12 C13 C14 C15 C16 C17 C18 C19 C20; do
  case $p in C04|C05|C07|C11|C14) n=600;; C18) n=120;; *) n=3000;; esac
  ./sim/target/release/nunsim determinism $p $n 2>&1 | tail -1 >> $OUT.new
done
mv $OUT.new $OUT; cat $OUT
