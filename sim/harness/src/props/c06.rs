//! C06 -- snapshot then restart restores exactly the snapshotted state.
//! (C18 reuses the program generator and executor with the S3 strategies.)
use crate::common::*;
use crate::kv::*;
use crate::world::*;
use nundb_verif_rt::kernel::Rng;
use nundb_verif_rt::sim::{run_sim, SimConfig};
use serde::{Deserialize, Serialize};
use serde_json::{json, Value as Json};
use std::collections::BTreeMap;

pub struct C06;

#[derive(Clone, Debug, Serialize, Deserialize, PartialEq)]
pub enum Op {
    Set { db: usize, key: String, val: String },
    SetSafe { db: usize, key: String, delta: i32, val: String },
    Remove { db: usize, key: String },
    Inc { db: usize, key: String, by: i32 },
    /// `snapshot <reclaim>` on the database followed by a completed background snapshot
    Snapshot { db: usize, reclaim: bool },
    /// kill the process and start it again on the surviving disk
    Restart,
    /// `snapshot <reclaim>` released to run on the node's snapshot thread while the following
    /// operations execute (nothing is captured; a later completed snapshot is what a restart is
    /// compared with)
    SnapRace { db: usize, reclaim: bool },
    /// `snapshot <reclaim>` is requested, the node's snapshot thread is released to run it, and the node is
    /// told to stop (SIGINT) at once: the clean shutdown completes the pending snapshot (itself, or by
    /// waiting for the snapshot thread) before the process exits; then the node is started again
    CleanRestart { db: usize, reclaim: bool },
    /// a session registers as the arbiter of the database and stays until the next restart: on an
    /// arbiter-strategy database a stale versioned write is then put aside as a conflict (the key keeps its value
    /// and gets the "in conflict" version, a `$conflicts_...` record is written) -- state a snapshot must keep
    Arbiter { db: usize },
    /// an incremental snapshot of the database is requested and the process is killed at its k-th mutating disk
    /// call (before or after the call), then started again.  What a crash in the middle of a snapshot may leave
    /// is C11's subject (either state, per key); here the history goes on from whatever was loaded, and the next
    /// snapshot that completes must again be restored exactly
    SnapCrash { db: usize, k: u32, after: bool },
}

#[derive(Clone, Debug, Serialize, Deserialize)]
pub struct Program {
    /// conflict strategy per database
    pub dbs: Vec<String>,
    pub ops: Vec<Op>,
}

pub const DBNAMES: [&str; 2] = ["d", "d2"];
const KEYS: [&str; 3] = ["ka", "kb", "x"];
const STRATS: [&str; 3] = ["none", "newer", "arbiter"];

pub fn gen(rng: &mut Rng, long: bool) -> Program {
    gen_with(rng, long, false)
}

pub fn gen_with(rng: &mut Rng, long: bool, clean_restarts: bool) -> Program {
    let ndbs = rng.range(1, 2) as usize;
    let dbs: Vec<String> = (0..ndbs).map(|_| STRATS[rng.below(3) as usize].to_string()).collect();
    let n = if long { rng.range(8, 40) } else { rng.range(2, 10) } as usize;
    let nkeys = rng.range(2, 3) as usize;
    let mut uniq = 0u32;
    let mut ops = Vec::new();
    // bias: histories that exercise remembered offsets
    let biased = rng.chance(1, 2);
    // a quarter of the biased histories: some incremental snapshots are released to run on the snapshot thread while
    // the following commands execute; nothing exact is promised for a restart right after such a snapshot, but
    // the next snapshot that completes on its own must again be restored exactly (what the racing one left in
    // memory -- dirty flags, disk addresses -- is what that snapshot works from)
    let race_incremental = biased && rng.chance(1, 2);
    for _ in 0..n {
        let db = rng.below(ndbs as u64) as usize;
        let key = KEYS[rng.below(nkeys as u64) as usize].to_string();
        let op = match rng.below(if biased { 14 } else { 12 }) {
            0..=2 => Op::Set { db, key, val: gen_value(rng, &mut uniq) },
            3 => Op::SetSafe { db, key, delta: rng.range(0, 2) as i32, val: gen_value(rng, &mut uniq) },
            4 | 5 => Op::Remove { db, key },
            6 | 7 => Op::Inc { db, key, by: rng.range(1, 9) as i32 - 3 },
            8 | 9 => Op::Snapshot { db, reclaim: false },
            10 => Op::Snapshot { db, reclaim: true },
            // (Op::SnapRace is not generated: the statement quantifies over sequential histories; the op
            //  exists for exploratory replay files, see findings/)
            11 => {
                if clean_restarts && rng.chance(1, 3) {
                    Op::CleanRestart { db, reclaim: rng.chance(1, 2) }
                } else {
                    Op::Restart
                }
            }
            12 => Op::Snapshot { db, reclaim: rng.chance(1, 2) },
            13 if race_incremental => {
                if rng.chance(1, 2) {
                    Op::SnapRace { db, reclaim: false }
                } else {
                    Op::SnapCrash { db, k: rng.range(1, 14) as u32, after: rng.chance(1, 2) }
                }
            }
            _ => Op::Remove { db, key },
        };
        ops.push(op);
    }
    // databases with the arbiter strategy: in half of the histories an arbiter registers early, and some versioned
    // writes are stale (conflicts that are put aside, before and after snapshots)
    for (dbi, strat) in dbs.iter().enumerate() {
        if strat == "arbiter" && rng.chance(1, 2) {
            for op in ops.iter_mut() {
                if let Op::SetSafe { db, delta, .. } = op {
                    if *db == dbi && rng.chance(2, 3) {
                        *delta = -1;
                    }
                }
            }
            let at = rng.below(ops.len().min(3) as u64 + 1) as usize;
            ops.insert(at, Op::Arbiter { db: dbi });
            let key = KEYS[rng.below(nkeys as u64) as usize].to_string();
            let at2 = rng.range(at as u64 + 1, ops.len() as u64) as usize;
            let conflict = vec![
                Op::Set { db: dbi, key: key.clone(), val: gen_value(rng, &mut uniq) },
                Op::Snapshot { db: dbi, reclaim: false },
                Op::SetSafe { db: dbi, key: key.clone(), delta: -1, val: gen_value(rng, &mut uniq) },
            ];
            if rng.chance(1, 2) {
                for (j, m) in conflict.into_iter().enumerate() {
                    ops.insert(at2 + j, m);
                }
            }
        }
    }
    // a third of the histories contain the motif "persist, restart, change ONE key of what was loaded,
    // incremental snapshot, restart": state that came from the loader must behave like state persisted by
    // this process (nothing else is dirty, so only that key's record / partition is rewritten)
    if rng.chance(1, 3) {
        let db = rng.below(ndbs as u64) as usize;
        let key = KEYS[rng.below(nkeys as u64) as usize].to_string();
        let at = rng.below(ops.len() as u64 + 1) as usize;
        let change = match rng.below(3) {
            0 => Op::Remove { db, key: key.clone() },
            1 => Op::Set { db, key: key.clone(), val: gen_value(rng, &mut uniq) },
            _ => Op::Inc { db, key: key.clone(), by: rng.range(1, 5) as i32 },
        };
        let first = if rng.chance(1, 2) { Op::Set { db, key: key.clone(), val: gen_value(rng, &mut uniq) } } else { Op::Inc { db, key: key.clone(), by: 3 } };
        let motif = vec![first, Op::Snapshot { db, reclaim: false }, Op::Restart, change, Op::Snapshot { db, reclaim: false }, Op::Restart];
        for (j, m) in motif.into_iter().enumerate() {
            ops.insert(at + j, m);
        }
    }
    // racing histories, half of them: the motif "write k, incremental snapshot released, remove k, write k again" --
    // the commands that race with the snapshot bring the key back to the version and state the snapshot thread
    // copied, with another value (what it marks as persisted must be what it wrote)
    if race_incremental && rng.chance(1, 2) {
        let db = rng.below(ndbs as u64) as usize;
        let key = KEYS[rng.below(nkeys as u64) as usize].to_string();
        let at = rng.below(ops.len() as u64 + 1) as usize;
        let mut motif = Vec::new();
        if rng.chance(1, 2) {
            motif.push(Op::Remove { db, key: key.clone() });
        }
        motif.push(if rng.chance(2, 3) { Op::Set { db, key: key.clone(), val: gen_value(rng, &mut uniq) } } else { Op::Inc { db, key: key.clone(), by: 4 } });
        motif.push(Op::SnapRace { db, reclaim: false });
        motif.push(Op::Remove { db, key: key.clone() });
        motif.push(if rng.chance(2, 3) { Op::Set { db, key: key.clone(), val: gen_value(rng, &mut uniq) } } else { Op::Inc { db, key: key.clone(), by: 5 } });
        for (j, m) in motif.into_iter().enumerate() {
            ops.insert(at + j, m);
        }
    }
    // every history ends with a snapshot and a restart so that something is always checked
    let db = rng.below(ndbs as u64) as usize;
    ops.push(Op::Snapshot { db, reclaim: rng.chance(1, 3) });
    ops.push(Op::Restart);
    Program { dbs, ops }
}

pub struct Outcome {
    pub setup_ok: bool,
    pub violations: Vec<Violation>,
    pub restarts_checked: u64,
    pub snapshots: u64,
    pub reclaims: u64,
}

fn hist_shape(hist: &[&'static str]) -> String {
    // compress the per-key event history to its last 4 events
    let n = hist.len();
    hist[n.saturating_sub(4)..].join(">")
}

pub fn execute(prog: Program) -> Outcome {
    let mut out = Outcome { setup_ok: false, violations: vec![], restarts_checked: 0, snapshots: 0, reclaims: 0 };
    let w = World::new(1);
    w.boot(0, "");
    if !w.wait_primary(0, 5_000) {
        return out;
    }
    let mut dbs = match w.dbs(0) {
        Some(d) => d,
        None => return out,
    };
    let mut admin = Session::admin(&dbs);
    for (i, strat) in prog.dbs.iter().enumerate() {
        if admin.exec(&format!("create-db {} tok{} {}", DBNAMES[i], i, strat)).resp.is_err() {
            return out;
        }
    }
    out.setup_ok = true;
    let ndbs = prog.dbs.len();
    // plain-map model of the live values, per database
    let mut model: Vec<BTreeMap<String, String>> = vec![BTreeMap::new(); ndbs];
    for (i, m) in model.iter_mut().enumerate() {
        m.insert("$$token".into(), format!("tok{}", i));
    }
    // state captured when the last snapshot of each database completed
    let mut snap: Vec<Option<BTreeMap<String, (String, i32)>>> = vec![None; ndbs];
    let mut snap_model: Vec<Option<BTreeMap<String, String>>> = vec![None; ndbs];
    // a snapshot was released to race with later commands and no completed snapshot followed yet: what
    // the disk holds lies somewhere between two states of the history
    let mut racy: Vec<bool> = vec![false; ndbs];
    let mut meta: Vec<Option<(usize, String)>> = (0..ndbs).map(|i| db_meta(&dbs, DBNAMES[i])).collect();
    // per (db,key) event history for the violation shape
    let mut hist: BTreeMap<(usize, String), Vec<&'static str>> = BTreeMap::new();
    let mut exists: Vec<bool> = vec![true; ndbs];
    let mut cur_db: Option<usize> = None;
    // arbiter sessions of the current process
    let mut arbiters: Vec<Session> = Vec::new();
    macro_rules! select {
        ($db:expr) => {
            if cur_db != Some($db) {
                let r = admin.exec(&format!("use-db {} tok{}", DBNAMES[$db], $db));
                if r.resp.is_err() {
                    out.violations.push(Violation::new(
                        "db-unusable",
                        "use-db",
                        format!("`use-db {} tok{}` => {:?}", DBNAMES[$db], $db, r.resp),
                    ));
                    return out;
                }
                cur_db = Some($db);
            }
        };
    }
    for (i, op) in prog.ops.iter().enumerate() {
        match op {
            Op::Set { db, key, val } => {
                if !exists[*db] {
                    continue;
                }
                select!(*db);
                let r = admin.exec(&format!("set {} {}", key, val));
                if !r.resp.is_err() {
                    model[*db].insert(key.clone(), val.clone());
                    hist.entry((*db, key.clone())).or_default().push("set");
                }
            }
            Op::SetSafe { db, key, delta, val } => {
                if !exists[*db] {
                    continue;
                }
                select!(*db);
                let cur = parse_value_version(&admin.exec(&format!("get-safe {}", key)).msgs).map(|x| x.0).unwrap_or(0);
                let r = admin.exec(&format!("set-safe {} {} {}", key, cur + delta, val));
                if !r.resp.is_err() {
                    model[*db].insert(key.clone(), val.clone());
                    hist.entry((*db, key.clone())).or_default().push("set-safe");
                }
            }
            Op::Remove { db, key } => {
                if !exists[*db] {
                    continue;
                }
                select!(*db);
                let r = admin.exec(&format!("remove {}", key));
                if !r.resp.is_err() {
                    model[*db].remove(key);
                    hist.entry((*db, key.clone())).or_default().push("remove");
                }
            }
            Op::Inc { db, key, by } => {
                if !exists[*db] {
                    continue;
                }
                select!(*db);
                let cur = match model[*db].get(key) {
                    Some(s) => as_int(s),
                    None => Some(0),
                };
                let r = admin.exec(&format!("increment {} {}", key, by));
                if let (Some(n), false) = (cur, r.resp.is_err()) {
                    model[*db].insert(key.clone(), (n + by).to_string());
                    hist.entry((*db, key.clone())).or_default().push("inc");
                }
            }
            Op::Arbiter { db } => {
                if !exists[*db] {
                    continue;
                }
                let mut a = Session::admin(&dbs);
                a.exec(&format!("use-db {} tok{}", DBNAMES[*db], db));
                a.exec("arbiter");
                arbiters.push(a);
            }
            Op::SnapRace { db, reclaim } => {
                if !exists[*db] {
                    continue;
                }
                select!(*db);
                if !admin.exec(&format!("snapshot {}", reclaim)).resp.is_err() {
                    racy[*db] = true;
                    w.declutter_kick(0);
                    nundb_verif_rt::kernel::with(|k| k.fault("snapshot_racing_commands"));
                }
            }
            Op::Snapshot { db, reclaim } => {
                if !exists[*db] {
                    continue;
                }
                select!(*db);
                let r = admin.exec(&format!("snapshot {}", reclaim));
                if r.resp.is_err() {
                    out.violations.push(Violation::new("snapshot-refused", "snapshot", format!("op #{} => {:?}", i, r.resp)));
                    continue;
                }
                if !w.declutter_tick(0, 20_000) {
                    out.violations.push(Violation::new("snapshot-stuck", "snapshot", format!("op #{}: background snapshot did not finish", i)));
                    return out;
                }
                if !w.alive(0) {
                    out.violations.push(Violation::new("snapshot-crashed", "snapshot", format!("op #{}: node died during the snapshot", i)));
                    return out;
                }
                out.snapshots += 1;
                if *reclaim {
                    out.reclaims += 1;
                }
                let d = match dump_db(&dbs, DBNAMES[*db]) {
                    Some(d) => d,
                    None => return out,
                };
                let lv = live_view(&d);
                // consistency of the in-memory state with the plain map at snapshot time (C01's subject,
                // repeated here so that a restart mismatch can be attributed to the disk path)
                // (conflict records of an arbiter database are the implementation's own keys, not the map's)
                let lv_vals: BTreeMap<String, String> = lv.iter().filter(|(k, _)| !k.starts_with("$conflicts")).map(|(k, v)| (k.clone(), v.0.clone())).collect();
                if lv_vals != model[*db] {
                    out.violations.push(Violation::new(
                        "memory-diverged",
                        "snapshot",
                        format!("op #{}: memory {:?} differs from the map {:?} before any restart", i, lv_vals, model[*db]),
                    ));
                }
                snap[*db] = Some(lv);
                snap_model[*db] = Some(model[*db].clone());
                racy[*db] = false;
                for ((d2, _k), h) in hist.iter_mut() {
                    if d2 == db {
                        h.push(if *reclaim { "SNAPR" } else { "SNAP" });
                    }
                }
            }
            Op::Restart | Op::CleanRestart { .. } | Op::SnapCrash { .. } => {
                if let Op::SnapCrash { db, k, after } = op {
                    // (a database without a completed snapshot has no promise to keep after a crash inside its first one)
                    if !exists[*db] || snap[*db].is_none() || racy[*db] {
                        continue;
                    }
                    select!(*db);
                    w.wait_declutter_idle(0, 20_000);
                    if admin.exec("snapshot false").resp.is_err() {
                        continue;
                    }
                    let idx = w.nodes[0].idx;
                    nundb_verif_rt::kernel::with(|kk| {
                        let n = &mut kk.nodes[idx as usize];
                        n.crash_at = Some((n.disk_mutations + *k as u64, *after));
                    });
                    w.declutter_tick(0, 20_000);
                    racy[*db] = true;
                    if w.alive(0) {
                        // the snapshot needed fewer disk calls: it completed (nothing was captured; the next completed
                        // snapshot is what a restart is compared with)
                        nundb_verif_rt::kernel::with(|kk| kk.nodes[idx as usize].crash_at = None);
                        continue;
                    }
                    nundb_verif_rt::kernel::with(|kk| kk.fault("kill_inside_snapshot"));
                    for ((d2, _k), h) in hist.iter_mut() {
                        if d2 == db {
                            h.push("CRASH-IN-SNAP");
                        }
                    }
                } else if let Op::CleanRestart { db, reclaim } = op {
                    if exists[*db] {
                        select!(*db);
                        w.wait_declutter_idle(0, 20_000);
                        let r = admin.exec(&format!("snapshot {}", reclaim));
                        if r.resp.is_err() {
                            out.violations.push(Violation::new("snapshot-refused", "snapshot", format!("op #{} => {:?}", i, r.resp)));
                            continue;
                        }
                        // what the completed snapshot must hold: the state now (no command follows)
                        let d = match dump_db(&dbs, DBNAMES[*db]) {
                            Some(d) => d,
                            None => return out,
                        };
                        snap[*db] = Some(live_view(&d));
                        snap_model[*db] = Some(model[*db].clone());
                        racy[*db] = false;
                        out.snapshots += 1;
                        if *reclaim {
                            out.reclaims += 1;
                        }
                        for ((d2, _k), h) in hist.iter_mut() {
                            if d2 == db {
                                h.push(if *reclaim { "SNAPR@shutdown" } else { "SNAP@shutdown" });
                            }
                        }
                        w.declutter_kick(0);
                    }
                    w.sigint(0);
                    if !w.wait_exit(0, 30_000) {
                        out.violations.push(Violation::new("shutdown-stuck", "sigint-during-snapshot", format!("op #{}: the node did not exit within 30 s of SIGINT", i)));
                        return out;
                    }
                } else {
                    // (a crash in the middle of a snapshot is C11's subject: let a racing one finish)
                    w.wait_declutter_idle(0, 20_000);
                    w.kill(0);
                }
                w.boot(0, "");
                if !w.wait_primary(0, 8_000) {
                    let panic = nundb_verif_rt::kernel::with(|k| k.panics.last().map(|p| format!("{} at {}", p.message, p.location)));
                    out.violations.push(Violation::new(
                        "restart-failed",
                        panic.clone().map(|p| p.split(" at ").last().unwrap_or("").to_string()).unwrap_or_else(|| "no-primary".into()),
                        format!("op #{}: node did not come back as primary after restart ({:?})", i, panic),
                    ));
                    return out;
                }
                dbs = match w.dbs(0) {
                    Some(d) => d,
                    None => return out,
                };
                admin = Session::admin(&dbs);
                cur_db = None;
                // (sessions of the previous process)
                arbiters.clear();
                out.restarts_checked += 1;
                for db in 0..ndbs {
                    let name = DBNAMES[db];
                    match (&snap[db], dump_db(&dbs, name)) {
                        (Some(_), Some(got)) if racy[db] => {
                            // nothing exact is promised for this restart; continue from what was loaded
                            let lv = live_view(&got);
                            model[db] = lv.iter().filter(|(k, _)| !k.starts_with("$conflicts")).map(|(k, v)| (k.clone(), v.0.clone())).collect();
                            snap_model[db] = Some(model[db].clone());
                            snap[db] = Some(lv);
                            meta[db] = db_meta(&dbs, name);
                            exists[db] = true;
                            racy[db] = false;
                        }
                        (Some(want), Some(got)) => {
                            let got_live = live_view(&got);
                            if &got_live != want {
                                // find the first differing key for the shape
                                let mut keys: Vec<&String> = want.keys().chain(got_live.keys()).collect();
                                keys.sort();
                                keys.dedup();
                                for k in keys {
                                    if want.get(k) != got_live.get(k) {
                                        let clause = match (want.get(k), got_live.get(k)) {
                                            (None, Some(_)) => "resurrected",
                                            (Some(_), None) => "lost-key",
                                            (Some(a), Some(b)) if a.0 != b.0 => "wrong-value",
                                            _ => "wrong-version",
                                        };
                                        let h = hist.get(&(db, k.clone())).cloned().unwrap_or_default();
                                        out.violations.push(Violation::new(
                                            clause,
                                            hist_shape(&h),
                                            format!(
                                                "op #{}: after restart database {} key {:?}: snapshot held {:?}, loaded {:?} (key history {:?})",
                                                i, name, k, want.get(k), got_live.get(k), h
                                            ),
                                        ));
                                        break;
                                    }
                                }
                            }
                            let m = db_meta(&dbs, name);
                            if m != meta[db] {
                                out.violations.push(Violation::new(
                                    "metadata-changed",
                                    format!("{}", prog.dbs[db]),
                                    format!("op #{}: database {} had (id,strategy) {:?}, after restart {:?}", i, name, meta[db], m),
                                ));
                                meta[db] = m;
                            }
                            model[db] = snap_model[db].clone().unwrap();
                            exists[db] = true;
                        }
                        (Some(_), None) => {
                            out.violations.push(Violation::new(
                                "lost-database",
                                format!("{}", prog.dbs[db]),
                                format!("op #{}: snapshotted database {} does not exist after restart", i, name),
                            ));
                            exists[db] = false;
                        }
                        (None, got) => {
                            // never snapshotted: nothing is promised; follow the implementation
                            exists[db] = got.is_some();
                            if let Some(g) = got {
                                model[db] = live_view(&g).into_iter().filter(|(k, _)| !k.starts_with("$conflicts")).map(|(k, v)| (k, v.0)).collect();
                                // whatever part of it was stored: a database that comes back comes back as itself
                                let m = db_meta(&dbs, name);
                                if meta[db].is_some() && m != meta[db] {
                                    out.violations.push(Violation::new(
                                        "metadata-changed",
                                        format!("{}:no-completed-snapshot", prog.dbs[db]),
                                        format!("op #{}: database {} (no snapshot of it completed) had (id,strategy) {:?}, after restart {:?}", i, name, meta[db], m),
                                    ));
                                }
                                meta[db] = m;
                            }
                        }
                    }
                    // every database keeps an identifier of its own
                    {
                        let mut ids: BTreeMap<usize, String> = BTreeMap::new();
                        for name in db_names(&dbs) {
                            if let Some((id, _)) = db_meta(&dbs, &name) {
                                if let Some(other) = ids.insert(id, name.clone()) {
                                    out.violations.push(Violation::new(
                                        "duplicate-db-id",
                                        "after-restart".to_string(),
                                        format!("op #{}: after the restart databases {} and {} both have the identifier {}", i, other, name, id),
                                    ));
                                }
                            }
                        }
                    }
                    // histories restart from the persisted state
                    for ((d2, _k), h) in hist.iter_mut() {
                        if *d2 == db {
                            h.push("RESTART");
                        }
                    }
                }
            }
        }
    }
    out
}

pub fn report(id_salt: u64, scenario: &str, ctx: &RunCtx, prog: &Program, outcome: nundb_verif_rt::sim::SimOutcome<Outcome>) -> RunReport {
    let mut rep = RunReport { seed: ctx.seed, scenario: scenario.to_string(), ..Default::default() };
    rep.program = serde_json::to_value(prog).unwrap();
    rep.absorb_kernel(&outcome.kernel);
    if let Some(p) = outcome.harness_panic {
        rep.harness_error = Some(p);
        return rep;
    }
    let out = match outcome.result {
        Some(o) => o,
        None => {
            rep.discarded = Some("run cut short".into());
            return rep;
        }
    };
    if !out.setup_ok {
        rep.discarded = Some("setup_unstable".into());
        return rep;
    }
    let had_restart_failure = out.violations.iter().any(|v| v.clause == "restart-failed");
    if !had_restart_failure {
        for p in outcome.kernel.panics.iter() {
            rep.violations.push(Violation::new("panic", p.location.clone(), format!("{} at {}", p.message, p.location)));
        }
    }
    rep.violations.extend(out.violations);
    rep.nontrivial = out.restarts_checked > 0 && out.snapshots > 0;
    rep.counters.insert("restarts_checked".into(), out.restarts_checked);
    rep.counters.insert("snapshots".into(), out.snapshots);
    rep.counters.insert("reclaiming_snapshots".into(), out.reclaims);
    rep.case_hash = nundb_verif_rt::kernel::mix(hash_str(&rep.program.to_string()), id_salt);
    rep
}

pub fn shrink_prog(program: &Json) -> Vec<Json> {
    let p: Program = match serde_json::from_value(program.clone()) {
        Ok(p) => p,
        Err(_) => return vec![],
    };
    let mut out = Vec::new();
    let n = p.ops.len();
    if n > 3 {
        let mut q = p.clone();
        q.ops = p.ops[n / 2..].to_vec();
        out.push(serde_json::to_value(&q).unwrap());
    }
    for i in 0..n {
        let mut q = p.clone();
        q.ops.remove(i);
        out.push(serde_json::to_value(&q).unwrap());
    }
    // shorten long values
    for i in 0..n {
        if let Op::Set { db, key, val } = &p.ops[i] {
            if val.len() > 8 {
                let mut q = p.clone();
                q.ops[i] = Op::Set { db: *db, key: key.clone(), val: "v".into() };
                out.push(serde_json::to_value(&q).unwrap());
            }
        }
    }
    out
}

impl Property for C06 {
    fn id(&self) -> &'static str {
        "C06"
    }
    fn scenarios(&self) -> Vec<(&'static str, u32)> {
        vec![("short", 2), ("long", 1)]
    }
    fn budget(&self) -> (u64, u64) {
        (150_000, 3_000_000)
    }
    fn rule(&self) -> &'static str {
        "histories of 2-10 (short) or 8-40 (long) steps of {set,set-safe,remove,increment,snapshot false,snapshot true,restart} over 2-3 keys and 1-2 databases (strategies none/newer/arbiter), values incl. empty, multi-byte UTF-8 and >250 bytes, half of the runs biased towards remove/snapshot alternations; every history ends with snapshot+restart. restart = process kill after a completed snapshot + real start_db on the surviving simulated disk, or (one restart in three) a snapshot request whose background run is released and a SIGINT at once: the clean shutdown (safe_shutdown) must complete the pending snapshot before the process exits. Non-trivial: at least one restart was compared against a completed snapshot. distinct = distinct programs."
    }
    fn assumptions(&self) -> Vec<String> {
        vec![
            "$connections is not compared; databases never snapshotted are not constrained".into(),
            "the state 'at the snapshot' is the white-box dump taken when the background snapshot returned, cross-checked against a plain map".into(),
        ]
    }
    fn components(&self) -> Json {
        json!({"real": ["main.rs start_db", "process_request", "bo::Database", "disk_ops", "storage::disk (writer + loader)", "declutter"],
               "simulated": ["disk (inode semantics, process-kill crash model)", "clock", "timer", "threads/locks"], "stub": []})
    }
    fn run_one(&self, scenario: &str, ctx: &RunCtx) -> RunReport {
        let mut rng = Rng::new(ctx.seed);
        let prog: Program = match &ctx.program {
            Some(p) => serde_json::from_value(p.clone()).expect("program"),
            None => gen_with(&mut rng, scenario == "long", true),
        };
        let mut cfg = SimConfig::new(ctx.seed ^ 0xc06);
        cfg.policy = policy_for(Rng::new(ctx.seed ^ 0x9011c7).next_u64());
        cfg.trace = ctx.trace;
        let p2 = prog.clone();
        let outcome = run_sim(cfg, move || execute(p2));
        clear_registry();
        report(0xc06, scenario, ctx, &prog, outcome)
    }
    fn shrink(&self, _scenario: &str, program: &Json) -> Vec<Json> {
        shrink_prog(program)
    }
}
