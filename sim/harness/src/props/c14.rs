//! C14 -- every operation causes a bounded message burst, then silence.
use crate::common::*;
use crate::kv::*;
use crate::world::*;
use nundb::bo::Databases;
use nundb_verif_rt::kernel::{self, with, Rng};
use nundb_verif_rt::net::LineRecord;
use nundb_verif_rt::sim::{run_sim, SimConfig};
use nundb_verif_rt::stdx::sync::Arc;
use serde::{Deserialize, Serialize};
use serde_json::{json, Value as Json};
use std::collections::BTreeMap;

pub struct C14;

#[derive(Clone, Debug, Serialize, Deserialize, PartialEq)]
pub enum Op {
    Set { key: String },
    SetSafe { key: String, stale: bool },
    Remove { key: String },
    Inc,
    Get { key: String },
    Keys,
    Watch { key: String },
    CreateDb,
    CreateUser,
    SetPermissions,
    Snapshot { reclaim: bool },
    /// `snapshot <reclaim> d|a`: one command naming two databases
    SnapshotNamed { reclaim: bool },
    /// a conflicting versioned write on the arbiter database followed by the arbiter's resolve
    ConflictAndResolve { resolver_node: usize },
    ClusterState,
    MetricsState,
    /// another arbiter session registers on this node for the arbiter database (after earlier conflicts were resolved):
    /// one client operation
    ArbiterAgain,
}

impl Op {
    fn word(&self) -> &'static str {
        match self {
            Op::Set { .. } => "set",
            Op::SetSafe { .. } => "set-safe",
            Op::Remove { .. } => "remove",
            Op::Inc => "increment",
            Op::Get { .. } => "get",
            Op::Keys => "keys",
            Op::Watch { .. } => "watch",
            Op::CreateDb => "create-db",
            Op::CreateUser => "create-user",
            Op::SetPermissions => "set-permissions",
            Op::Snapshot { .. } => "snapshot",
            Op::SnapshotNamed { .. } => "snapshot-named",
            Op::ConflictAndResolve { .. } => "resolve",
            Op::ClusterState => "cluster-state",
            Op::MetricsState => "metrics-state",
            Op::ArbiterAgain => "arbiter",
        }
    }
}

#[derive(Clone, Debug, Serialize, Deserialize)]
pub struct Program {
    pub nodes: usize,
    pub ops: Vec<(usize, Op)>,
    /// conflict strategy of the working database: none or newer (a stale versioned write is then
    /// accepted, resolved and replicated -- still one copy per secondary)
    #[serde(default = "default_strategy")]
    pub strategy: String,
    /// 3-node clusters: the first primary is killed before the judged operations, so that the primary is a
    /// node the others first knew (and connected to) as a secondary
    #[serde(default)]
    pub failover: bool,
    /// fail-over clusters: a client writes on the youngest node (which never becomes primary) this many
    /// milliseconds after the first primary was killed -- inside or just after the election window, while
    /// that node may have no reachable primary (0 = no such write)
    #[serde(default)]
    pub window_write_ms: u64,
}

fn default_strategy() -> String {
    "none".to_string()
}

fn gen(rng: &mut Rng) -> Program {
    let nodes = rng.range(2, 3) as usize;
    let n = rng.range(1, 5) as usize;
    let mut ops = Vec::new();
    for _ in 0..n {
        let node = rng.below(nodes as u64) as usize;
        let key = ["ka", "kb"][rng.below(2) as usize].to_string();
        ops.push((
            node,
            match rng.below(16) {
                0..=2 => Op::Set { key },
                3 => Op::SetSafe { key, stale: rng.chance(1, 2) },
                4 => Op::Remove { key },
                5 => Op::Inc,
                6 => Op::Get { key },
                7 => Op::Keys,
                8 => Op::Watch { key },
                9 => Op::CreateDb,
                10 => Op::CreateUser,
                11 => Op::SetPermissions,
                12 => {
                    if rng.chance(1, 2) {
                        Op::Snapshot { reclaim: rng.chance(1, 3) }
                    } else {
                        Op::SnapshotNamed { reclaim: rng.chance(1, 3) }
                    }
                }
                13 | 14 => Op::ConflictAndResolve { resolver_node: rng.below(nodes as u64) as usize },
                _ => {
                    if rng.chance(1, 2) {
                        Op::ClusterState
                    } else {
                        Op::MetricsState
                    }
                }
            },
        ));
    }
    // one program in eight ends with two conflicts resolved and then a new arbiter registering (what it is sent, and what
    // registering cleans up, is node-local work)
    if rng.chance(1, 8) {
        let node = rng.below(nodes as u64) as usize;
        ops.truncate(2);
        ops.push((rng.below(nodes as u64) as usize, Op::ConflictAndResolve { resolver_node: rng.below(nodes as u64) as usize }));
        ops.push((rng.below(nodes as u64) as usize, Op::ConflictAndResolve { resolver_node: rng.below(nodes as u64) as usize }));
        ops.push((node, Op::ArbiterAgain));
    }
    let strategy = if rng.chance(1, 3) { "newer" } else { "none" }.to_string();
    let failover = nodes == 3 && rng.chance(1, 4);
    let window_write_ms = if failover && rng.chance(1, 2) { 1 + rng.below(election_timeout_ms() + 400) } else { 0 };
    Program { nodes, ops, strategy, failover, window_write_ms }
}

struct Outcome {
    setup: Result<(), String>,
    violations: Vec<Violation>,
    ops_judged: u64,
    max_lines: u64,
}

#[derive(Default, Debug)]
struct Burst {
    forwards: u64,
    copies: BTreeMap<u64, u64>,
    acks: BTreeMap<u64, u64>,
    sec_to_sec: Vec<String>,
    other: Vec<String>,
    total: u64,
}

fn classify(lines: &[LineRecord], primary: u32) -> Burst {
    let mut b = Burst::default();
    for l in lines {
        let (from, to) = match (l.from, l.to) {
            (Some(f), Some(t)) if f != t => (f, t),
            _ => continue,
        };
        let text = l.line.trim();
        if text.is_empty() || text == "ok" {
            continue; // replies to link commands, not messages of their own
        }
        b.total += 1;
        let word = text.split(' ').next().unwrap_or("");
        if from != primary && to != primary {
            b.sec_to_sec.push(format!("n{}->n{}: {}", from + 1, to + 1, text));
            continue;
        }
        match word {
            "rp" => {
                let id = text.split(' ').nth(1).and_then(|x| x.parse::<u64>().ok()).unwrap_or(0);
                *b.copies.entry(id).or_insert(0) += 1;
            }
            "ack" => {
                let id = text.split(' ').nth(1).and_then(|x| x.parse::<u64>().ok()).unwrap_or(0);
                *b.acks.entry(id).or_insert(0) += 1;
            }
            "replicate" | "replicate-increment" | "replicate-remove" | "resolve" => {
                if to == primary {
                    b.forwards += 1;
                } else {
                    b.other.push(format!("n{}->n{}: {}", from + 1, to + 1, text));
                }
            }
            _ => b.other.push(format!("n{}->n{}: {}", from + 1, to + 1, text)),
        }
    }
    b
}

fn execute(prog: Program) -> Outcome {
    let mut out = Outcome { setup: Err("not formed".into()), violations: vec![], ops_judged: 0, max_lines: 0 };
    let w = World::new(prog.nodes);
    maybe_segment(3, true);
    let primary = match w.form_cluster(1_300, 15_000) {
        Some(p) => p,
        None => {
            out.setup = Err("setup_unstable".into());
            return out;
        }
    };
    if primary != 0 {
        out.setup = Err("setup_unstable".into());
        return out;
    }
    let dbs: Vec<Arc<Databases>> = match (0..prog.nodes).map(|i| w.dbs(i)).collect::<Option<Vec<_>>>() {
        Some(d) => d,
        None => return out,
    };
    let mut padmin = Session::admin(&dbs[0]);
    padmin.exec(&format!("create-db d tok {}", prog.strategy));
    padmin.exec("create-db a tok arbiter");
    if !w.settle(200, 5_000) {
        out.setup = Err("setup_unstable".into());
        return out;
    }
    let mut sessions: Vec<Session> = Vec::new();
    for i in 0..prog.nodes {
        let mut s = Session::admin(&dbs[i]);
        if s.exec("use-db d tok").resp.is_err() {
            out.setup = Err("setup_unstable".into());
            return out;
        }
        sessions.push(s);
    }
    sessions[0].exec("set ka base");
    sessions[0].exec("set kb base");
    sessions[0].exec("set n 1");
    if !w.settle(300, 5_000) {
        out.setup = Err("setup_unstable".into());
        return out;
    }
    // optional fail-over: the oldest survivor takes over (elections are C07's subject: a cluster that does
    // not re-form is discarded here)
    let first = if prog.failover && prog.nodes == 3 {
        with(|k| k.fault("primary_killed_before_ops"));
        if prog.window_write_ms > 0 {
            with(|k| k.net.line_log = Some(Vec::new()));
        }
        w.kill(0);
        if prog.window_write_ms > 0 {
            // a client operation on the node that stays a secondary, while the election may still run: whatever
            // that node does with it (drop, forward to the primary it knows), it must not hand it to several nodes
            with(|k| k.fault("write_in_election_window"));
            sleep_ms(prog.window_write_ms);
            let me = w.nodes[2].idx;
            sessions[2].exec("set ka windowwrite7");
            let fanned = wait_cond(20_000, 100, || w.agreed_primary() == Ok(1)) && w.settle(3 * election_timeout_ms() + 500, 30_000);
            let lines: Vec<LineRecord> = with(|k| k.net.line_log.take().unwrap_or_default());
            let mut dests: Vec<u32> = Vec::new();
            let mut sample: Vec<String> = Vec::new();
            for l in lines.iter() {
                if l.from == Some(me) && l.line.contains("windowwrite7") && !l.line.trim().starts_with("rp ") {
                    if let Some(t) = l.to {
                        if !dests.contains(&t) {
                            dests.push(t);
                        }
                        sample.push(format!("n{}->n{}: {}", me + 1, t + 1, l.line.trim().chars().take(80).collect::<String>()));
                    }
                }
            }
            if dests.len() > 1 {
                out.setup = Ok(());
                out.violations.push(Violation::new(
                    "secondary-fan-out",
                    "set@secondary-during-election".to_string(),
                    format!("`set ka windowwrite7` on the youngest node {} ms after the primary was killed: that node sent the operation to {} nodes: {:?}", prog.window_write_ms, dests.len(), sample.iter().take(6).collect::<Vec<_>>()),
                ));
                return out;
            }
            if !fanned {
                out.setup = Err("setup_unstable".into());
                return out;
            }
        }
        // the aftermath of an election (leave notices, the winner's announcement, their acks) trickles in
        // for up to an election timeout: the judged operations start from a long silence
        let quiet_ms = 3 * election_timeout_ms() + 500;
        let ok = wait_cond(20_000, 100, || w.agreed_primary() == Ok(1)) && w.settle(quiet_ms, 30_000) && w.agreed_primary() == Ok(1);
        if !ok {
            out.setup = Err("setup_unstable".into());
            return out;
        }
        1
    } else {
        0
    };
    out.setup = Ok(());
    let pidx = w.nodes[first].idx;
    let nsec = (prog.nodes - 1 - first) as u64;
    with(|k| k.net.line_log = Some(Vec::new()));
    let mut uniq = 0;
    let mut ndb = 0;
    for (oi, (node, op)) in prog.ops.iter().enumerate() {
        let node = (*node).min(prog.nodes - 1).max(first);
        let role = if node == first {
            if first == 0 {
                "primary"
            } else {
                "primary-after-failover"
            }
        } else if first == 0 {
            "secondary"
        } else {
            "secondary-after-failover"
        };
        // silence before the operation
        with(|k| k.net.line_log.as_mut().unwrap().clear());
        uniq += 1;
        let mut client_ops = 1u64;
        match op {
            Op::Set { key } => {
                sessions[node].exec(&format!("set {} v{}", key, uniq));
            }
            Op::SetSafe { key, stale } => {
                let cur = parse_value_version(&sessions[node].exec(&format!("get-safe {}", key)).msgs).map(|x| x.0).unwrap_or(0);
                sessions[node].exec(&format!("set-safe {} {} s{}", key, if *stale { (cur - 1).max(0) } else { cur }, uniq));
            }
            Op::Remove { key } => {
                sessions[node].exec(&format!("remove {}", key));
            }
            Op::Inc => {
                sessions[node].exec("increment n 2");
            }
            Op::Get { key } => {
                sessions[node].exec(&format!("get {}", key));
            }
            Op::Keys => {
                sessions[node].exec("keys");
            }
            Op::Watch { key } => {
                sessions[node].exec(&format!("watch {}", key));
            }
            Op::CreateDb => {
                ndb += 1;
                sessions[node].exec(&format!("create-db x{} tk newer", ndb));
            }
            Op::CreateUser => {
                sessions[node].exec(&format!("create-user u{} pw", uniq));
            }
            Op::SetPermissions => {
                sessions[node].exec("set-permissions u1 rw k*");
            }
            Op::Snapshot { reclaim } => {
                sessions[node].exec(&format!("snapshot {}", reclaim));
            }
            Op::SnapshotNamed { reclaim } => {
                sessions[node].exec(&format!("snapshot {} d|a", reclaim));
            }
            Op::ClusterState => {
                sessions[node].exec("cluster-state");
            }
            Op::MetricsState => {
                sessions[node].exec("metrics-state");
            }
            Op::ArbiterAgain => {
                let mut arb = Session::admin(&dbs[node]);
                arb.exec("use-db a tok");
                arb.exec("arbiter");
                sleep_ms(50);
                arb.disconnect();
            }
            Op::ConflictAndResolve { resolver_node } => {
                // arbiter registered on `resolver_node`, conflicting write issued on `node`
                let rn = (*resolver_node).min(prog.nodes - 1).max(first);
                let mut arb = Session::admin(&dbs[rn]);
                arb.exec("use-db a tok");
                arb.exec("arbiter");
                let mut wr = Session::admin(&dbs[node]);
                wr.exec("use-db a tok");
                // (two ordinary client operations of their own: each must be followed by silence as well)
                let mut stuck: Option<String> = None;
                wr.exec(&format!("set c base{}", uniq));
                if !w.settle(200, 4_000) {
                    stuck = Some(format!("set c base{}", uniq));
                }
                if stuck.is_none() {
                    wr.exec(&format!("set-safe c 1 first{}", uniq));
                    if !w.settle(200, 4_000) {
                        stuck = Some(format!("set-safe c 1 first{}", uniq));
                    }
                }
                if let Some(cmdline) = stuck {
                    let n = with(|k| k.net.line_log.as_ref().map(|l| l.len()).unwrap_or(0));
                    out.violations.push(Violation::new(
                        "self-sustaining",
                        format!("set-on-arbiter-db@{}", role),
                        format!("op #{}: `{}` on the {} (arbiter database, arbiter client on node {}): the cluster is still exchanging messages 4 s later ({} lines so far)", oi, cmdline, role, rn + 1, n),
                    ));
                    return out;
                }
                with(|k| k.net.line_log.as_mut().unwrap().clear());
                // the conflicting write (stale version) -- this is client operation #1
                wr.exec(&format!("set-safe c 0 conflict{}", uniq));
                // (50 ms for the notices to arrive -- cut short when the nodes start exchanging megabytes)
                {
                    let b0 = with(|k| k.net.inter_node_bytes);
                    let until = kernel::now() + 50 * kernel::MS;
                    kernel::wait(
                        kernel::Wait::Any(vec![
                            kernel::Wait::Until(until),
                            kernel::Wait::Cond(std::rc::Rc::new(move |k: &kernel::Kernel| if k.net.inter_node_bytes > b0 + (8 << 20) { kernel::Ready::Yes } else { kernel::Ready::No })),
                        ]),
                        true,
                    );
                }
                // the arbiter answers every notice it got by echoing op id and version -- operation #2..
                let notices: Vec<String> = arb.drain().into_iter().filter(|m| m.starts_with("resolve ")).collect();
                client_ops = 1 + notices.len() as u64;
                for nmsg in notices {
                    // resolve <opp_id> <db> <version> <key> <old_value> <value>
                    let p: Vec<&str> = nmsg.trim().splitn(7, ' ').collect();
                    if p.len() >= 7 {
                        arb.exec(&format!("resolve {} {} {} {} {}", p[1], p[2], p[4], p[3], p[6]));
                    }
                }
            }
        }
        // burst: wait for quiescence with a budget far above the bound
        // quiescence, or early stop when the exchange is already far above any bound
        let quiet = {
            let t0 = kernel::now();
            let bytes_before = with(|k| k.net.inter_node_bytes);
            let mut q = false;
            loop {
                if w.settle(300, 600) {
                    q = true;
                    break;
                }
                let n = with(|k| k.net.line_log.as_ref().map(|l| l.len()).unwrap_or(0));
                if n > 600 || kernel::now() > t0 + 8_000 * kernel::MS || with(|k| k.net.inter_node_bytes) > bytes_before + (8 << 20) {
                    break;
                }
            }
            q
        };
        let lines: Vec<LineRecord> = with(|k| k.net.line_log.as_ref().unwrap().clone());
        let b = classify(&lines, pidx);
        out.ops_judged += 1;
        out.max_lines = out.max_lines.max(b.total);
        let shape = format!("{}@{}", op.word(), role);
        let sample: Vec<String> = lines.iter().filter(|l| l.from != l.to && l.line.trim() != "ok").take(14).map(|l| format!("n{}->n{}: {}", l.from.map(|x| x + 1).unwrap_or(0), l.to.map(|x| x + 1).unwrap_or(0), l.line.chars().take(90).collect::<String>())).collect();
        if !quiet {
            out.violations.push(Violation::new(
                "self-sustaining",
                shape.clone(),
                format!("op #{} `{}` on the {}: the cluster is still exchanging messages 8 s later ({} lines so far), e.g. {:?}", oi, op.word(), role, b.total, sample),
            ));
            return out;
        }
        if !b.sec_to_sec.is_empty() {
            out.violations.push(Violation::new(
                "secondary-fan-out",
                shape.clone(),
                format!("op #{} `{}` on the {}: a secondary sent to another secondary: {:?}", oi, op.word(), role, b.sec_to_sec.iter().take(4).collect::<Vec<_>>()),
            ));
        }
        if b.forwards > client_ops {
            out.violations.push(Violation::new(
                "too-many-forwards",
                shape.clone(),
                format!("op #{} `{}` on the {}: {} forwards to the primary for {} client operation(s): {:?}", oi, op.word(), role, b.forwards, client_ops, sample),
            ));
        }
        for (id, n) in b.copies.iter() {
            if *n > nsec {
                out.violations.push(Violation::new(
                    "too-many-copies",
                    shape.clone(),
                    format!("op #{} `{}` on the {}: replicated message {} was sent {} times to {} secondaries: {:?}", oi, op.word(), role, id, n, nsec, sample),
                ));
                break;
            }
        }
        for (id, n) in b.acks.iter() {
            let copies = b.copies.get(id).copied().unwrap_or(0);
            if *n > copies.max(1) {
                out.violations.push(Violation::new(
                    "too-many-acks",
                    shape.clone(),
                    format!("op #{} `{}` on the {}: message {} was acknowledged {} times for {} copies", oi, op.word(), role, id, n, copies),
                ));
                break;
            }
        }
        // distinct replicated messages per client operation: small constant
        let distinct = b.copies.len() as u64;
        // one replicated message per client operation; the arbiter path sends the $conflicts_ record of
        // the conflicting write, then the resolved marker and the resolve itself (small constant)
        let max_distinct = if matches!(op, Op::ConflictAndResolve { .. }) { 3 * client_ops } else { client_ops };
        if distinct > max_distinct {
            out.violations.push(Violation::new(
                "too-many-messages",
                shape.clone(),
                format!("op #{} `{}` on the {}: {} distinct replicated messages for {} client operation(s): {:?}", oi, op.word(), role, distinct, client_ops, sample),
            ));
        }
        // silence afterwards
        with(|k| k.net.line_log.as_mut().unwrap().clear());
        sleep_ms(2 * election_timeout_ms());
        let after: Vec<LineRecord> = with(|k| k.net.line_log.as_ref().unwrap().clone());
        let ab = classify(&after, pidx);
        if ab.total > 0 {
            out.violations.push(Violation::new(
                "not-silent",
                shape.clone(),
                format!("op #{} `{}` on the {}: {} more inter-node lines after quiescence, e.g. {:?}", oi, op.word(), role, ab.total, after.iter().take(4).map(|l| l.line.clone()).collect::<Vec<_>>()),
            ));
        }
        if !out.violations.is_empty() {
            break;
        }
    }
    out
}

impl Property for C14 {
    fn id(&self) -> &'static str {
        "C14"
    }
    fn scenarios(&self) -> Vec<(&'static str, u32)> {
        vec![("one-op-at-a-time", 1)]
    }
    fn budget(&self) -> (u64, u64) {
        (10_000, 300_000)
    }
    fn rule(&self) -> &'static str {
        "stable clusters of 2-3 real nodes (a quarter of the 3-node clusters after a fail-over: the first primary is killed and the oldest survivor, which the others first knew as a secondary, has taken over; in half of those a client writes on the youngest node 1 ms - (election timeout + 400 ms) after the kill, inside the election window: that node may drop or forward the operation but must not send it to more than one node); 1-5 client-visible commands of {set,set-safe,remove,increment,get,keys,watch,create-db,create-user,set-permissions,snapshot,cluster-state,metrics-state, conflicting write on an arbiter database + the arbiter's resolve (arbiter on any node)} issued one at a time on a seeded node; every line crossing a simulated inter-node link is recorded and attributed: forwards to the primary <= 1 per client operation, copies of one replicated message <= number of secondaries, acks <= copies, distinct replicated messages <= 1 per client operation (<= 3 on the arbiter conflict/resolve path), nothing from secondary to secondary, quiescence within 8 simulated s and no line during a further 2 x election timeout. Non-trivial: the command produced at least one inter-node line. distinct = distinct (program, task-switch sequence)."
    }
    fn assumptions(&self) -> Vec<String> {
        vec!["membership/election traffic is not generated in this check (the cluster is stable); `ok` replies to link commands are not counted as messages".into()]
    }
    fn components(&self) -> Json {
        json!({"real": ["process_request", "replicate_request", "replication loop", "start_replication links", "consensus_ops (arbiter conflict + resolve)"],
               "simulated": ["TCP with per-line accounting", "clock", "threads"], "stub": ["arbiter client = harness answering each notice once"]})
    }
    fn run_one(&self, scenario: &str, ctx: &RunCtx) -> RunReport {
        let mut rng = Rng::new(ctx.seed);
        let prog: Program = match &ctx.program {
            Some(p) => serde_json::from_value(p.clone()).expect("program"),
            None => gen(&mut rng),
        };
        let mut cfg = SimConfig::new(ctx.seed ^ 0xc14);
        cfg.policy = policy_for(Rng::new(ctx.seed ^ 0x9011c7).next_u64());
        cfg.trace = ctx.trace;
        cfg.max_steps = 8_000_000;
        let p2 = prog.clone();
        let outcome = run_sim(cfg, move || execute(p2));
        clear_registry();
        let mut rep = RunReport { seed: ctx.seed, scenario: scenario.to_string(), ..Default::default() };
        rep.program = serde_json::to_value(&prog).unwrap();
        rep.absorb_kernel(&outcome.kernel);
        if let Some(p) = outcome.harness_panic {
            rep.harness_error = Some(p);
            return rep;
        }
        let out = match outcome.result {
            Some(o) => o,
            None => {
                // a run cut by the step cap while messages still flow is the self-sustaining case
                rep.discarded = Some("truncated".into());
                return rep;
            }
        };
        if let Err(e) = out.setup {
            rep.discarded = Some(e);
            return rep;
        }
        for p in outcome.kernel.panics.iter() {
            rep.violations.push(Violation::new("panic", p.location.rsplit('/').next().unwrap_or("?").to_string(), format!("{} at {}", p.message, p.location)));
        }
        rep.violations.extend(out.violations);
        rep.nontrivial = out.max_lines > 0;
        rep.counters.insert("ops_judged".into(), out.ops_judged);
        let e = rep.counters.entry("max_lines_per_op".into()).or_insert(0);
        *e = (*e).max(out.max_lines);
        rep.case_hash = kernel::mix(hash_str(&rep.program.to_string()), outcome.kernel.switch_hash);
        rep
    }
    fn shrink(&self, _scenario: &str, program: &Json) -> Vec<Json> {
        let p: Program = match serde_json::from_value(program.clone()) {
            Ok(p) => p,
            Err(_) => return vec![],
        };
        let mut out = Vec::new();
        for i in 0..p.ops.len() {
            if p.ops.len() > 1 {
                let mut q = p.clone();
                q.ops.remove(i);
                out.push(serde_json::to_value(&q).unwrap());
            }
        }
        if p.nodes == 3 {
            let mut q = p.clone();
            q.nodes = 2;
            out.push(serde_json::to_value(&q).unwrap());
        }
        out
    }
}
