#!/bin/bash
# Development tool: confirm a seeded change independently of the sub-agent that wrote it.
#   tools/confirm_seeded.sh <dir with patch.diff/extra> <scratch worktree> '<demo command>' [demo file copies: src=dst ...]
# 1. patch applies to clean HEAD, builds, 148 stable tests pass; 2. demo fails with the patch; 3. demo passes without.
set -u
D=$1; WT=$2; DEMO=$3; shift 3
cd $WT || exit 2
git checkout -q -- . ; git clean -fdq -e target
git apply $D/patch.diff || { echo "CONFIRM patch-does-not-apply"; exit 1; }
suite=$(/verif/tools/runtests.sh $WT | grep '^RESULT' )
place_demo() {
  if [ -f $D/extra/demo.patch ]; then git apply $D/extra/demo.patch || echo "demo.patch failed"; fi
  if [ -n "${CONFIRM_PRE:-}" ]; then ( eval "$CONFIRM_PRE" ) || echo "pre-step failed"; fi
  for m in "$@"; do src=${m%%=*}; dst=${m#*=}; mkdir -p $(dirname $WT/$dst); cp $D/extra/$src $WT/$dst; done
}
place_demo "$@"
export CARGO_NET_OFFLINE=true CARGO_TARGET_DIR=$WT/target
( eval "$DEMO" ) > $WT/.demo_with.log 2>&1; with=$?
git apply -R $D/patch.diff || echo "revert failed"
( eval "$DEMO" ) > $WT/.demo_without.log 2>&1; without=$?
git checkout -q -- . ; git clean -fdq -e target
echo "CONFIRM $(basename $(dirname $(dirname $D)))-$(basename $D) suite=[$suite] demo_with_change_exit=$with demo_without_change_exit=$without => $([ "$with" != 0 ] && [ "$without" = 0 ] && echo "$suite" | grep -q OK && echo CONFIRMED || echo NOT-CONFIRMED)"
