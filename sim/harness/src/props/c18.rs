//! C18 -- S3 storage strategies restore what the disk strategy would.
//! Same histories and oracle as C06, with NUN_STORAGE_STRATEGY in {s3, s3_patition} (per worker
//! process), the real aws-sdk-s3 talking to an in-process stub server, and upload/download faults.
use crate::common::*;
use crate::kv::*;
use crate::props::c06;
use crate::s3stub;
use crate::world::*;
use nundb_verif_rt::kernel::{self, with, Rng};
use nundb_verif_rt::sim::{run_sim, SimConfig};
use serde::{Deserialize, Serialize};
use serde_json::{json, Value as Json};

pub struct C18;

#[derive(Clone, Debug, Serialize, Deserialize, PartialEq)]
pub enum Fault {
    None,
    /// the n-th PUT of an object whose key contains `pat` fails once
    PutFailsOnce { pat: String, attempt: u32 },
    /// every PUT of objects whose key contains `pat` fails
    PutFailsAlways { pat: String },
    /// the first GET of an object whose key contains `pat` fails
    GetFailsOnce { pat: String },
    /// the first `n` PUTs of each matching object fail: more than the SDK's own retries absorb, so the
    /// storage code sees one failed upload and its own retry succeeds
    PutFailsFirst { pat: String, n: u32 },
    /// every GET of matching objects fails (restart must fail loudly, never restore something else)
    GetFailsAlways { pat: String },
}

#[derive(Clone, Debug, Serialize, Deserialize)]
pub struct Program {
    pub base: c06::Program,
    pub fault: Fault,
}

fn strategy() -> String {
    std::env::var("NUN_STORAGE_STRATEGY").unwrap_or_else(|_| "disk".into())
}

fn setup_stub(fault: &Fault) {
    let url = s3stub::ensure_started();
    if std::env::var("NUN_S3_API_URL").ok().as_deref() != Some(url.as_str()) {
        std::env::set_var("NUN_S3_API_URL", &url);
    }
    s3stub::reset();
    let st = s3stub::store();
    let mut g = st.lock().unwrap();
    match fault {
        Fault::None => {}
        Fault::PutFailsOnce { pat, attempt } => g.put_faults.push((pat.clone(), vec![*attempt], false)),
        Fault::PutFailsAlways { pat } => g.put_faults.push((pat.split('#').next().unwrap_or("").to_string(), vec![], true)),
        Fault::GetFailsOnce { pat } => g.get_fail_once.push(pat.clone()),
        Fault::PutFailsFirst { pat, n } => g.put_faults.push((pat.clone(), (1..=*n).collect(), false)),
        Fault::GetFailsAlways { pat } => g.get_fail_always.push(pat.clone()),
    }
}

struct FaultOutcome {
    setup_ok: bool,
    violations: Vec<Violation>,
}

/// PUT always fails: the failure must be reported and the keys must not be considered stored.
fn execute_put_always(pat: String) -> FaultOutcome {
    let mut out = FaultOutcome { setup_ok: false, violations: vec![] };
    let w = World::new(1);
    let (dbs, mut admin) = match single_node_with_db(&w, "d", "tok", "none") {
        Some(x) => x,
        None => return out,
    };
    // (`#after-removal`: the uploads start failing only after a first snapshot succeeded and `ka` was removed -- the
    //  removal must reach the store with the next snapshot that completes, however many failed in between)
    let after_removal = pat.ends_with("#after-removal");
    let pat = pat.split('#').next().unwrap_or("").to_string();
    admin.exec("set ka v1");
    admin.exec("set kb v2");
    if after_removal {
        let saved: Vec<(String, Vec<u32>, bool)> = {
            let s = s3stub::store();
            let mut g = s.lock().unwrap();
            std::mem::take(&mut g.put_faults)
        };
        admin.exec("snapshot false");
        w.declutter_kick(0);
        sleep_ms(200);
        admin.exec("remove ka");
        let s = s3stub::store();
        s.lock().unwrap().put_faults = saved;
    }
    out.setup_ok = true;
    let errors_before = with(|k| k.stats.probes.get("s3_upload_error").copied().unwrap_or(0));
    admin.exec("snapshot false");
    w.declutter_kick(0);
    sleep_ms(200);
    let panicked = with(|k| !k.panics.is_empty());
    let errors_after = with(|k| k.stats.probes.get("s3_upload_error").copied().unwrap_or(0));
    let reported = panicked || errors_after > errors_before;
    let st = strategy();
    if !reported {
        out.violations.push(Violation::new(
            "upload-failure-silent",
            format!("{}:put-always-fails", st),
            format!("every PUT of objects matching {:?} fails, the snapshot neither logged an error nor failed", pat),
        ));
    }
    // the node must not believe the data is stored
    let states = |dbs: &nundb_verif_rt::stdx::sync::Arc<nundb::bo::Databases>| -> Vec<(String, String, String)> {
        let map = dbs.map.read().unwrap();
        match map.get(&"d".to_string()) {
            Some(db) => {
                let data = db.map.read().unwrap();
                let mut v: Vec<_> = data
                    .iter()
                    .filter(|(k, _)| k.as_str() == "ka" || k.as_str() == "kb")
                    .map(|(k, v)| (k.clone(), v.value.clone(), format!("{:?}", v.state)))
                    .collect();
                v.sort();
                v
            }
            None => vec![],
        }
    };
    let d = states(&dbs);
    let uploaded = {
        let s = s3stub::store();
        let g = s.lock().unwrap();
        g.objects.keys().any(|k| k.contains("d/") && !k.contains("metadata"))
    };
    if !after_removal && !uploaded && !d.is_empty() && d.iter().all(|(_, _, s)| s == "Ok") {
        out.violations.push(Violation::new(
            "marked-clean-after-failed-upload",
            format!("{}:put-always-fails", st),
            format!("nothing of database d reached the object store but its keys are marked clean: {:?}", d),
        ));
        return out;
    }
    if pat == "nun.metadata" {
        // only the metadata object cannot be stored: whatever else of the database reached the store, a restart now
        // brings the database back as itself (identifier, strategy) or not at all
        let before = crate::kv::db_meta(&dbs, "d");
        w.kill(0);
        sleep_ms(10);
        w.boot(0, "");
        if !w.wait_primary(0, 5_000) {
            // failing loudly is allowed
            return out;
        }
        if let Some(d2) = w.dbs(0) {
            let after = crate::kv::db_meta(&d2, "d");
            if after.is_some() && after != before {
                out.violations.push(Violation::new(
                    "metadata-changed",
                    format!("{}:metadata-upload-failed", st),
                    format!("the metadata object of d could not be stored; after a restart d is back with (id, strategy) {:?}, it had {:?}", after, before),
                ));
            }
        }
        return out;
    }
    // the store recovers: if the node is able to snapshot again, the data must be there after a restart
    {
        let s = s3stub::store();
        s.lock().unwrap().put_faults.clear();
    }
    admin.exec("snapshot false");
    w.declutter_kick(0);
    sleep_ms(200);
    // (a tombstone still in memory means that no snapshot has completed since the removal: nothing is concluded then)
    let clean = states(&dbs).iter().all(|(_, _, s)| s == "Ok");
    if clean {
        w.kill(0);
        sleep_ms(10);
        w.boot(0, "");
        if !w.wait_primary(0, 5_000) {
            out.violations.push(Violation::new("restart-failed", format!("{}:after-recovered-upload", st), "node did not come back".to_string()));
            return out;
        }
        if let Some(dbs2) = w.dbs(0) {
            let got: Vec<(String, String)> = states(&dbs2).into_iter().filter(|(_, _, s)| s != "Deleted").map(|(k, v, _)| (k, v)).collect();
            let want = if after_removal { vec![("kb".to_string(), "v2".to_string())] } else { vec![("ka".to_string(), "v1".to_string()), ("kb".to_string(), "v2".to_string())] };
            if got != want {
                out.violations.push(Violation::new(
                    if after_removal { "resurrected-after-recovered-upload" } else { "lost-after-recovered-upload" },
                    format!("{}:put-always-fails", st),
                    format!("first snapshot failed (reported={}), the second one completed with every key clean, after the restart database d holds {:?}, expected {:?}", reported, got, want),
                ));
            }
        }
    }
    out
}

impl Property for C18 {
    fn id(&self) -> &'static str {
        "C18"
    }
    fn scenarios(&self) -> Vec<(&'static str, u32)> {
        vec![("no-faults", 3), ("put-fails-once", 1), ("put-fails-always", 1), ("get-fails-once", 1), ("put-fails-first", 2), ("get-fails-always", 1)]
    }
    fn budget(&self) -> (u64, u64) {
        (500, 20_000)
    }
    fn rule(&self) -> &'static str {
        "the C06 histories (2-40 steps of {set,set-safe,remove,increment,snapshot false/true,restart} over 2-3 keys and 1-2 databases, every history ending with snapshot + restart) with the storage strategy of the worker process in {s3, s3_patition} and 1, 3 or 10 partitions; the real aws-sdk-s3 (tokio) performs PUT/GET/ListObjectsV2 against an in-process stub server over a loopback socket; oracle = the C06 model (state captured when the snapshot completed), so disk defects can neither mask nor fake S3 ones. Fault sequences: the n-th PUT of an object fails once, or the first 3-5 PUTs of an object fail (more than the SDK's own retries absorb: the storage code's retry must re-send the real content; result must equal the fault-free one), PUT fails always (must be reported by a log error or a failed snapshot, keys not marked clean), first GET fails / every GET of the metadata, partition or key objects fails (restart must succeed or fail loudly, never restore something else). Non-trivial: a restart was compared / a fault fired. distinct = distinct (program, fault, strategy, partitions)."
    }
    fn assumptions(&self) -> Vec<String> {
        vec![
            "aws-sdk-s3, tokio and the loopback socket are real and outside scheduler control; each SDK call is one atomic step (requests are issued sequentially by the code under test, so their order is schedule-determined)".into(),
            "the S3 service is a stub (PUT, GET, ListObjectsV2, fault plan keyed by object key and attempt number)".into(),
        ]
    }
    fn components(&self) -> Json {
        json!({"real": ["storage::s3 / storage::s3_partition", "aws-sdk-s3 + tokio + loopback TCP", "disk_ops::load_all_dbs / storage_data dispatch", "start_db restart path"],
               "simulated": ["disk (keys map, oplog)", "clock", "timer", "threads"], "stub": ["S3 service (in-process HTTP server)"]})
    }
    fn worker_env(&self, w: u64, _master: u64) -> Vec<(String, String)> {
        let strat = if w % 2 == 0 { "s3_patition" } else { "s3" };
        let parts = ["3", "1", "10"][((w / 2) % 3) as usize];
        vec![
            ("NUN_STORAGE_STRATEGY".to_string(), strat.to_string()),
            ("NUN_S3_NUMBER_OF_PARTITIONS".to_string(), parts.to_string()),
            ("NUN_S3_RETRY".to_string(), "3".to_string()),
            ("NUN_S3_PREFIX".to_string(), "sim".to_string()),
        ]
    }
    fn run_one(&self, scenario: &str, ctx: &RunCtx) -> RunReport {
        let mut rng = Rng::new(ctx.seed);
        let prog: Program = match &ctx.program {
            Some(p) => serde_json::from_value(p.clone()).expect("program"),
            None => {
                let long = rng.chance(1, 4);
                let base = c06::gen(&mut rng, long);
                // one database's objects, every object, or one kind of object (metadata / keys / values / partitions)
                let pats = ["d/", "d2/", "/", "nun.metadata", "nun.keys", "nun.values", ".nun"];
                let pat = pats[rng.below(pats.len() as u64) as usize].to_string();
                let fault = match scenario {
                    "put-fails-once" => Fault::PutFailsOnce { pat, attempt: rng.range(1, 3) as u32 },
                    "put-fails-always" => Fault::PutFailsAlways { pat: ["d/", "nun.metadata", if strategy() == "s3_patition" { ".nun#after-removal" } else { "d/#after-removal" }][rng.below(3) as usize].to_string() },
                    "get-fails-once" => Fault::GetFailsOnce { pat },
                    "put-fails-first" => Fault::PutFailsFirst { pat, n: rng.range(3, 5) as u32 },
                    "get-fails-always" => Fault::GetFailsAlways { pat: ["nun.metadata", ".nun", "nun.keys", "/"][rng.below(4) as usize].to_string() },
                    _ => Fault::None,
                };
                Program { base, fault }
            }
        };
        setup_stub(&prog.fault);
        let st = strategy();
        let parts = std::env::var("NUN_S3_NUMBER_OF_PARTITIONS").unwrap_or_default();
        let mut cfg = SimConfig::new(ctx.seed ^ 0xc18);
        cfg.policy = policy_for(Rng::new(ctx.seed ^ 0x9011c7).next_u64());
        cfg.trace = ctx.trace;
        cfg.stack_size = 8 << 20;
        let mut rep;
        if let Fault::PutFailsAlways { pat } = &prog.fault {
            let pat = pat.clone();
            let outcome = run_sim(cfg, move || execute_put_always(pat));
            clear_registry();
            rep = RunReport { seed: ctx.seed, scenario: scenario.to_string(), ..Default::default() };
            rep.absorb_kernel(&outcome.kernel);
            if let Some(p) = outcome.harness_panic {
                rep.harness_error = Some(p);
                return rep;
            }
            match outcome.result {
                Some(o) if o.setup_ok => {
                    rep.violations.extend(o.violations);
                    rep.nontrivial = true;
                }
                _ => {
                    rep.discarded = Some("setup_unstable".into());
                }
            }
        } else {
            let p2 = prog.base.clone();
            let outcome = run_sim(cfg, move || c06::execute(p2));
            clear_registry();
            rep = c06::report(0xc18, scenario, ctx, &prog.base, outcome);
            // attribute the violation shapes to the strategy (and tolerate a loud failure when GET fails)
            for v in rep.violations.iter_mut() {
                v.shape = format!("{}:{}", st, v.shape);
            }
            if matches!(prog.fault, Fault::PutFailsFirst { .. }) {
                // a strategy without a retry of its own reports the failed upload (error log + the
                // snapshot fails): allowed by the statement; what must not happen is a silent loss
                rep.violations.retain(|v| v.clause != "panic" && v.clause != "snapshot-stuck");
            }
            if matches!(prog.fault, Fault::GetFailsOnce { .. } | Fault::GetFailsAlways { .. }) {
                rep.violations.retain(|v| v.clause != "restart-failed" && v.clause != "panic");
            }
        }
        rep.program = serde_json::to_value(&prog).unwrap();
        let (puts_failed, gets_failed, puts_ok) = {
            let s = s3stub::store();
            let g = s.lock().unwrap();
            (g.puts_failed, g.gets_failed, g.puts_ok)
        };
        if puts_failed > 0 {
            rep.faults.insert("s3_put_failed".into(), puts_failed);
        }
        if gets_failed > 0 {
            rep.faults.insert("s3_get_failed".into(), gets_failed);
        }
        rep.counters.insert("s3_puts_ok".into(), puts_ok);
        rep.case_hash = kernel::mix(hash_str(&rep.program.to_string()), hash_str(&format!("{}:{}", st, parts)));
        rep
    }
    fn shrink(&self, _scenario: &str, program: &Json) -> Vec<Json> {
        let p: Program = match serde_json::from_value(program.clone()) {
            Ok(p) => p,
            Err(_) => return vec![],
        };
        let base = serde_json::to_value(&p.base).unwrap();
        c06::shrink_prog(&base)
            .into_iter()
            .filter_map(|b| serde_json::from_value::<c06::Program>(b).ok())
            .map(|b| serde_json::to_value(&Program { base: b, fault: p.fault.clone() }).unwrap())
            .collect()
    }
}
