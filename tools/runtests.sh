#!/bin/bash
# Development tool: run nun-db's own suite in a worktree and say whether the 148 stable baseline tests pass.
#   tools/runtests.sh <worktree>      prints "RESULT OK <n> stable passed" or "RESULT FAIL <missing tests>"
WT=${1:-/repo}
cd $WT || exit 2
export CARGO_NET_OFFLINE=true CARGO_TARGET_DIR=${CARGO_TARGET_DIR:-$WT/target}
rm -f $CARGO_TARGET_DIR/nextest/pb/junit.xml
cargo nextest run --workspace --no-fail-fast --tool-config-file pb:/w/lib/nextest.toml --profile pb --test-threads 8 --offline > $WT/.suite.log 2>&1
J=$CARGO_TARGET_DIR/nextest/pb/junit.xml
[ -f $J ] || { echo "RESULT FAIL no junit (build error?)"; tail -5 $WT/.suite.log; exit 1; }
python3 - "$J" <<'PY'
import sys, json, xml.etree.ElementTree as ET
stable = set(json.load(open('/root/.vp/BASELINE.json'))['stable_pass'])
ok = set()
for tc in ET.parse(sys.argv[1]).getroot().iter('testcase'):
    if tc.find('failure') is None and tc.find('error') is None and tc.find('skipped') is None:
        cn = tc.get('classname'); nm = tc.get('name')
        ok.add(f"{cn}::{nm}"); ok.add(nm)
        ok.add(f"{cn.split('::')[0]}::{nm}")
missing = [t for t in stable if t not in ok]
print("RESULT OK %d stable passed" % len(stable) if not missing else "RESULT FAIL " + " ".join(sorted(missing)[:8]))
sys.exit(0 if not missing else 1)
PY
