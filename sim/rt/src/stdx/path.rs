//! `std::path` facade: only `Path::new(..).exists()` consults the simulated disk.
pub use std::path::{Component, Components, PathBuf, MAIN_SEPARATOR};

pub struct Path;
pub struct PathRef(String);

impl Path {
    pub fn new<S: AsRef<std::ffi::OsStr> + ?Sized>(s: &S) -> PathRef {
        PathRef(s.as_ref().to_string_lossy().to_string())
    }
}
impl PathRef {
    pub fn exists(&self) -> bool {
        crate::stdx::fs::exists(&self.0)
    }
    pub fn to_str(&self) -> Option<&str> {
        Some(&self.0)
    }
    pub fn is_dir(&self) -> bool {
        crate::stdx::fs::metadata(&self.0).map(|m| m.is_dir()).unwrap_or(false)
    }
    pub fn is_file(&self) -> bool {
        crate::stdx::fs::metadata(&self.0).map(|m| m.is_file()).unwrap_or(false)
    }
}
impl AsRef<std::path::Path> for PathRef {
    fn as_ref(&self) -> &std::path::Path {
        std::path::Path::new(&self.0)
    }
}
