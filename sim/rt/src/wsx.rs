//! `ws` facade: a single-task event loop (as the real crate's mio loop) that runs nun-db's real
//! `Handler` over the simulated TCP with length-prefixed frames.
use crate::frame::{self, Frame};
use crate::kernel::{self, with, Wait};
use crate::stdx::net::TcpListener;

#[derive(Debug)]
pub struct Error(pub String);
impl std::fmt::Display for Error {
    fn fmt(&self, f: &mut std::fmt::Formatter<'_>) -> std::fmt::Result {
        write!(f, "{}", self.0)
    }
}
impl std::error::Error for Error {}
pub type Result<T> = std::result::Result<T, Error>;

#[derive(Debug, Clone, Copy, PartialEq)]
pub enum CloseCode {
    Normal,
    Away,
    Abnormal,
}

#[derive(Debug, Clone, PartialEq)]
pub enum Message {
    Text(String),
    Binary(Vec<u8>),
}
impl Message {
    pub fn as_text(&self) -> Result<&str> {
        match self {
            Message::Text(s) => Ok(s),
            Message::Binary(b) => std::str::from_utf8(b).map_err(|e| Error(e.to_string())),
        }
    }
    pub fn into_text(self) -> Result<String> {
        match self {
            Message::Text(s) => Ok(s),
            Message::Binary(b) => String::from_utf8(b).map_err(|e| Error(e.to_string())),
        }
    }
}
impl From<&str> for Message {
    fn from(s: &str) -> Message {
        Message::Text(s.to_string())
    }
}
impl From<String> for Message {
    fn from(s: String) -> Message {
        Message::Text(s)
    }
}

#[derive(Debug)]
pub struct Handshake;

#[derive(Clone, Debug)]
pub struct Sender {
    ep: usize,
}
impl Sender {
    pub fn send<M: Into<Message>>(&self, m: M) -> Result<()> {
        let m: Message = m.into();
        let bytes = match m {
            Message::Text(s) => s.into_bytes(),
            Message::Binary(b) => b,
        };
        frame::write_frame(self.ep, &bytes).map_err(|_| Error("connection closed".to_string()))
    }
    pub fn close(&self, _c: CloseCode) -> Result<()> {
        let ep = self.ep;
        with(|k| k.net.close_endpoint(ep));
        Ok(())
    }
}

pub trait Handler {
    fn on_open(&mut self, _: Handshake) -> Result<()> {
        Ok(())
    }
    fn on_message(&mut self, _: Message) -> Result<()> {
        Ok(())
    }
    fn on_close(&mut self, _: CloseCode, _: &str) {}
    /// a connection that fails with a protocol / io error: the real crate calls this and then still
    /// calls `on_close` when the connection is torn down
    fn on_error(&mut self, _: Error) {}
}

#[derive(Clone, Debug)]
pub struct Settings {
    pub max_connections: usize,
}
impl Default for Settings {
    fn default() -> Self {
        Settings { max_connections: 100 }
    }
}

pub struct Builder {
    settings: Settings,
}
impl Builder {
    pub fn new() -> Builder {
        Builder { settings: Settings::default() }
    }
    pub fn with_settings(mut self, s: Settings) -> Builder {
        self.settings = s;
        self
    }
    pub fn build<F, H>(self, factory: F) -> Result<WebSocket<F>>
    where
        F: FnMut(Sender) -> H,
        H: Handler,
    {
        Ok(WebSocket { factory, _settings: self.settings })
    }
}

pub struct WebSocket<F> {
    factory: F,
    _settings: Settings,
}

struct Conn<H> {
    stream: crate::stdx::net::TcpStream,
    handler: H,
    buf: Vec<u8>,
}

impl<F, H> WebSocket<F>
where
    F: FnMut(Sender) -> H,
    H: Handler,
{
    pub fn listen<A: crate::stdx::net::AsAddr>(mut self, addr: A) -> Result<WebSocket<F>> {
        let listener = TcpListener::bind(addr).map_err(|e| Error(e.to_string()))?;
        let lid = listener_id(&listener);
        let mut conns: Vec<Conn<H>> = Vec::new();
        loop {
            let mut ws = vec![Wait::Accept(lid)];
            for c in conns.iter() {
                let ep = c.stream.endpoint();
                ws.push(Wait::PipeReadable(with(|k| k.net.endpoints[ep].rx)));
            }
            kernel::wait(Wait::Any(ws), false);
            // accept
            loop {
                let pending = with(|k| !k.net.listeners[lid].queue.is_empty());
                if !pending {
                    break;
                }
                match listener.accept() {
                    Ok((stream, _)) => {
                        let sender = Sender { ep: stream.endpoint() };
                        let mut handler = (self.factory)(sender);
                        let _ = handler.on_open(Handshake);
                        conns.push(Conn { stream, handler, buf: Vec::new() });
                    }
                    Err(_) => break,
                }
            }
            // dispatch
            let mut i = 0;
            while i < conns.len() {
                let ep = conns[i].stream.endpoint();
                let open = frame::pump(ep, &mut conns[i].buf);
                let mut closed = None;
                while let Some(f) = frame::take_frame(&mut conns[i].buf) {
                    match f {
                        Frame::Data(d) => {
                            let msg = match String::from_utf8(d) {
                                Ok(s) => Message::Text(s),
                                Err(e) => Message::Binary(e.into_bytes()),
                            };
                            let _ = conns[i].handler.on_message(msg);
                        }
                        Frame::Close => {
                            closed = Some(CloseCode::Normal);
                            break;
                        }
                        Frame::Broken => {
                            conns[i].handler.on_error(Error("protocol error: broken frame".to_string()));
                            closed = Some(CloseCode::Abnormal);
                            break;
                        }
                    }
                }
                if closed.is_none() && !open {
                    closed = Some(CloseCode::Abnormal);
                }
                if let Some(code) = closed {
                    let mut c = conns.remove(i);
                    c.handler.on_close(code, "");
                    drop(c);
                } else {
                    i += 1;
                }
            }
        }
    }
}

fn listener_id(l: &TcpListener) -> usize {
    // TcpListener is `struct { id }`; expose through Debug-free accessor
    l.id()
}
