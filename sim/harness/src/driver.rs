//! Batch driver: forks worker processes (nun-db's configuration is process-global), aggregates
//! evidence, triages violations against known_findings.json, minimises and replays new ones.
use crate::common::*;
use crate::props;
use serde_json::{json, Value as Json};
use std::collections::{BTreeMap, BTreeSet, HashSet};
use std::io::{BufRead, BufReader, Write};
use std::process::{Command, Stdio};
use std::time::Instant;

const VERIF_DIR: &str = "/verif";

fn verif_dir() -> String {
    std::env::var("NUNSIM_VERIF_DIR").unwrap_or_else(|_| VERIF_DIR.to_string())
}

pub fn main(args: &[String]) -> i32 {
    if args.is_empty() {
        eprintln!("usage: nunsim run <PROP> <quick|thorough> | worker .. | replay <file> | one <PROP> <scenario> <seed> [--trace] | determinism <PROP> <n>");
        return 2;
    }
    match args[0].as_str() {
        "run" => cmd_run(&args[1..]),
        "worker" => cmd_worker(&args[1..]),
        "replay" => cmd_replay_outer(&args[1..]),
        "replay-inner" => cmd_replay(&args[1..]),
        "one" => cmd_one(&args[1..]),
        "determinism" => cmd_determinism(&args[1..]),
        "hashes" => cmd_hashes(&args[1..]),
        _ => {
            eprintln!("unknown command {}", args[0]);
            2
        }
    }
}

fn init_process() {
    // force nun-db's process-global statics with a constant map seed, outside any run
    let _ = nundb::bo::Request::parse("get x");
    let level = match std::env::var("NUNSIM_LOG").as_deref() {
        Ok("debug") => log::LevelFilter::Debug,
        Ok("info") => log::LevelFilter::Info,
        Ok("warn") => log::LevelFilter::Warn,
        Ok("off") => log::LevelFilter::Off,
        _ => log::LevelFilter::Info,
    };
    nundb_verif_rt::sim::init_logging(
        level,
        vec![
            ("Election timeout, will claim as primary", "election_timeout_claim"),
            ("winning the election", "election_won_by_acks"),
            ("Only one node in the cluster", "election_single_node"),
            ("No opp registered, will set as primary", "election_no_opp_claim"),
            ("No longer eligible to be primary", "election_lost_eligibility"),
            ("Got a set primary from", "set_primary_while_primary"),
            ("Will perform a full sync", "full_sync"),
            ("Acknowledging invalid opp", "ack_unknown_opp"),
            ("but already ack from the server", "ack_duplicate"),
            ("but not pedding from the server", "ack_foreign"),
            ("Nun-db has restarted with op-log in a invalid state", "oplog_discarded_at_start"),
            ("Will resolve the conflitct in the key", "conflict_resolution"),
            ("send_message::try_send", "client_channel_full"),
            ("replicate_if_some sender.send Error", "link_channel_error"),
            ("process_message Error", "tcp_write_failed"),
            // debug-level lines (only seen by workers that run with NUNSIM_LOG=debug): inside the catch-up
            // computation, after a database's map was copied / per oplog record
            ("Done the the db", "full_sync_db_done"),
            (" file_position: ", "catch_up_record"),
        ],
    );
}

fn pick_scenario(p: &dyn Property, seed: u64) -> &'static str {
    let sc = p.scenarios();
    let total: u32 = sc.iter().map(|s| s.1).sum();
    let mut x = (nundb_verif_rt::kernel::mix(seed, 0x5ce)) % total as u64;
    for (name, w) in sc.iter() {
        if x < *w as u64 {
            return name;
        }
        x -= *w as u64;
    }
    sc[0].0
}

// ------------------------------------------------------------------------------------------------
// worker
// ------------------------------------------------------------------------------------------------

fn minimise(p: &dyn Property, scenario: &str, seed: u64, program: Json, clause: &str, shape: &str, budget_ms: u128) -> (Json, u64) {
    let start = Instant::now();
    let mut cur = program;
    let mut cur_seed = seed;
    'outer: loop {
        if start.elapsed().as_millis() > budget_ms {
            break;
        }
        let cands = p.shrink(scenario, &cur);
        for c in cands {
            if start.elapsed().as_millis() > budget_ms {
                break 'outer;
            }
            for ds in 0..3u64 {
                let s = seed.wrapping_add(ds);
                let ctx = RunCtx { seed: s, tier: Tier::Quick, trace: false, program: Some(c.clone()) };
                let r = p.run_one(scenario, &ctx);
                if r.harness_error.is_none() && r.violations.iter().any(|v| v.clause == clause && v.shape == shape) {
                    cur = c;
                    cur_seed = s;
                    continue 'outer;
                }
            }
        }
        break;
    }
    (cur, cur_seed)
}

fn limit_memory() {
    // corrupted on-disk data can make nun-db's loader ask for absurd allocations; fail fast
    // (the process aborts and the driver reports the seed) instead of swapping for minutes
    let gb: u64 = std::env::var("NUNSIM_MEM_GB").ok().and_then(|s| s.parse().ok()).unwrap_or(6);
    unsafe {
        let lim = libc::rlimit { rlim_cur: gb << 30, rlim_max: gb << 30 };
        libc::setrlimit(libc::RLIMIT_AS, &lim);
    }
}

fn cmd_worker(args: &[String]) -> i32 {
    // worker <PROP> <tier> <master> <w> <W> <total_runs>
    if args.len() < 6 {
        return 2;
    }
    let p = match props::by_id(&args[0]) {
        Some(p) => p,
        None => return 2,
    };
    let tier = if args[1] == "thorough" { Tier::Thorough } else { Tier::Quick };
    let master: u64 = args[2].parse().unwrap();
    let w: u64 = args[3].parse().unwrap();
    let nw: u64 = args[4].parse().unwrap();
    let total: u64 = args[5].parse().unwrap();
    let deadline_s: u64 = std::env::var("NUNSIM_WALL_CAP_S").ok().and_then(|s| s.parse().ok()).unwrap_or(3600);
    init_process();
    limit_memory();
    let progress_path = std::env::var("NUNSIM_PROGRESS_FILE").ok();
    let progress = progress_path.as_ref().and_then(|p| std::fs::OpenOptions::new().create(true).write(true).open(p).ok());
    let first: u64 = std::env::var("NUNSIM_FIRST_INDEX").ok().and_then(|s| s.parse().ok()).unwrap_or(w);
    let start = Instant::now();
    let out = std::io::stdout();
    let mut runs = 0u64;
    let mut nontrivial = 0u64;
    let mut hashes: HashSet<u64> = HashSet::new();
    let mut steps = 0u64;
    let mut switches = 0u64;
    let mut sim_ms = 0u64;
    let mut truncated = 0u64;
    let mut discarded: BTreeMap<String, u64> = BTreeMap::new();
    let mut faults: BTreeMap<String, u64> = BTreeMap::new();
    let mut probes: BTreeMap<String, u64> = BTreeMap::new();
    let mut counters: BTreeMap<String, u64> = BTreeMap::new();
    let mut per_scenario: BTreeMap<String, u64> = BTreeMap::new();
    let mut seen_sigs: BTreeMap<String, u64> = BTreeMap::new();
    let mut samples: Vec<Json> = Vec::new();
    let mut harness_errors = 0u64;
    let mut i = first;
    let mut capped = false;
    while i < total {
        if let Some(f) = progress.as_ref() {
            use std::os::unix::fs::FileExt;
            let _ = f.write_at(&i.to_le_bytes(), 0);
        }
        if start.elapsed().as_secs() > deadline_s {
            capped = true;
            break;
        }
        let seed = seed_for(master, p.id(), 0, i);
        let scenario = pick_scenario(p, seed);
        let ctx = RunCtx { seed, tier, trace: false, program: None };
        let r = p.run_one(scenario, &ctx);
        runs += 1;
        *per_scenario.entry(scenario.to_string()).or_insert(0) += 1;
        steps += r.steps;
        switches += r.switches;
        sim_ms += r.sim_ms;
        if r.truncated {
            truncated += 1;
        }
        for (k, v) in r.faults.iter() {
            *faults.entry(k.clone()).or_insert(0) += v;
        }
        for (k, v) in r.probes.iter() {
            *probes.entry(k.clone()).or_insert(0) += v;
        }
        for (k, v) in r.counters.iter() {
            if k == "net_max_backlog" {
                let e = counters.entry(k.clone()).or_insert(0);
                *e = (*e).max(*v);
            } else {
                *counters.entry(k.clone()).or_insert(0) += v;
            }
        }
        if let Some(e) = r.harness_error.as_ref() {
            harness_errors += 1;
            let line = json!({"type":"harness_error","seed":seed,"scenario":scenario,"error":e,"program":r.program});
            let _ = writeln!(out.lock(), "{}", line);
            if harness_errors > 3 {
                break;
            }
            i += nw;
            continue;
        }
        if let Some(d) = r.discarded.as_ref() {
            *discarded.entry(d.clone()).or_insert(0) += 1;
            i += nw;
            continue;
        }
        if r.nontrivial {
            nontrivial += 1;
            if hashes.len() < 3_000_000 {
                hashes.insert(r.case_hash);
            }
        }
        if samples.len() < 2 && r.nontrivial {
            samples.push(json!({"seed": seed, "scenario": scenario, "program": r.program, "steps": r.steps, "switches": r.switches}));
        }
        let mut sigs_this_run: BTreeSet<String> = BTreeSet::new();
        for v in r.violations.iter() {
            let sig = v.sig();
            if !sigs_this_run.insert(sig.clone()) {
                continue;
            }
            let n = seen_sigs.entry(sig.clone()).or_insert(0);
            *n += 1;
            if *n == 1 {
                // first time this worker sees the signature: minimise and report with replay data
                let (minp, mseed) = minimise(p, scenario, seed, r.program.clone(), &v.clause, &v.shape, 4000);
                let ctx2 = RunCtx { seed: mseed, tier, trace: true, program: Some(minp.clone()) };
                let r2 = p.run_one(scenario, &ctx2);
                let v2 = r2.violations.iter().find(|x| x.clause == v.clause && x.shape == v.shape).cloned();
                let (fv, fprog, fseed, ftrace) = match v2 {
                    Some(v2) => (v2, r2.program.clone(), mseed, r2.trace),
                    None => (v.clone(), r.program.clone(), seed, vec![]),
                };
                let tail: Vec<String> = ftrace.iter().rev().take(60).rev().cloned().collect();
                let line = json!({"type":"violation","property":p.id(),"scenario":scenario,"seed":fseed,"orig_seed":seed,
                    "clause":fv.clause,"shape":fv.shape,"message":fv.message,"program":fprog,"orig_sig":sig,"trace":tail});
                let _ = writeln!(out.lock(), "{}", line);
            }
        }
        i += nw;
    }
    let mut hv: Vec<u64> = hashes.into_iter().collect();
    hv.sort();
    let line = json!({"type":"summary","worker":w,"runs":runs,"nontrivial":nontrivial,"hashes":hv,"steps":steps,"switches":switches,
        "sim_ms":sim_ms,"truncated":truncated,"discarded":discarded,"faults":faults,"probes":probes,"counters":counters,
        "per_scenario":per_scenario,"sigs":seen_sigs,"samples":samples,"harness_errors":harness_errors,"capped":capped,
        "wall_s":start.elapsed().as_secs_f64()});
    let _ = writeln!(out.lock(), "{}", line);
    if harness_errors > 0 {
        2
    } else {
        0
    }
}

// ------------------------------------------------------------------------------------------------
// known findings
// ------------------------------------------------------------------------------------------------

#[derive(Clone, Debug)]
struct Finding {
    property: String,
    clause: String,
    shape: String,
    what: String,
}

fn glob(pat: &[u8], s: &[u8]) -> bool {
    // `*` matches any (possibly empty) run of characters; everything else is literal
    match pat.first() {
        None => s.is_empty(),
        Some(b'*') => (0..=s.len()).any(|i| glob(&pat[1..], &s[i..])),
        Some(c) => s.first() == Some(c) && glob(&pat[1..], &s[1..]),
    }
}

fn shape_matches(pat: &str, shape: &str) -> bool {
    pat.split('|').any(|alt| glob(alt.as_bytes(), shape.as_bytes()))
}

fn load_findings(prop: &str) -> Vec<Finding> {
    let path = format!("{}/known_findings.json", verif_dir());
    let txt = match std::fs::read_to_string(&path) {
        Ok(t) => t,
        Err(_) => return vec![],
    };
    let j: Json = match serde_json::from_str(&txt) {
        Ok(j) => j,
        Err(e) => {
            eprintln!("known_findings.json does not parse: {}", e);
            return vec![];
        }
    };
    let mut out = Vec::new();
    if let Some(a) = j.get("findings").and_then(|f| f.as_array()) {
        for f in a {
            let g = |k: &str| f.get(k).and_then(|x| x.as_str()).unwrap_or("").to_string();
            if g("property") == prop {
                out.push(Finding { property: g("property"), clause: g("clause"), shape: g("shape"), what: g("what") });
            }
        }
    }
    out
}

// ------------------------------------------------------------------------------------------------
// run (parent)
// ------------------------------------------------------------------------------------------------

fn cmd_run(args: &[String]) -> i32 {
    if args.len() < 2 {
        eprintln!("usage: nunsim run <PROP> <quick|thorough>");
        return 2;
    }
    let p = match props::by_id(&args[0]) {
        Some(p) => p,
        None => {
            eprintln!("unknown property {}", args[0]);
            return 2;
        }
    };
    let tier_s = args[1].as_str();
    let tier = if tier_s == "thorough" { Tier::Thorough } else { Tier::Quick };
    let master: u64 = std::env::var("VERIF_SEED").ok().and_then(|s| s.parse().ok()).unwrap_or(1);
    let (q, t) = p.budget();
    let mut total = if tier == Tier::Thorough { t } else { q };
    if let Some(n) = std::env::var("NUNSIM_RUNS").ok().and_then(|s| s.parse::<u64>().ok()) {
        total = n;
    }
    let nw: u64 = std::env::var("NUNSIM_WORKERS")
        .ok()
        .and_then(|s| s.parse().ok())
        .unwrap_or_else(|| std::thread::available_parallelism().map(|n| n.get() as u64).unwrap_or(8));
    let nw = nw.min(total.max(1));
    let exe = std::env::current_exe().unwrap();
    let start = Instant::now();
    println!("nunsim: property={} tier={} VERIF_SEED={} runs={} workers={}", p.id(), tier_s, master, total, nw);
    // one supervisor thread per worker slot: respawns the worker after a process abort (the run
    // that killed it is reported with its seed) so that one fatal case does not end the batch
    let mut handles = Vec::new();
    let pid = std::process::id();
    for w in 0..nw {
        let exe = exe.clone();
        let envs = p.worker_env(w, master);
        let pid_s = p.id().to_string();
        let tier_s = tier_s.to_string();
        handles.push(std::thread::spawn(move || {
            let progress_file = format!("/tmp/nunsim-progress-{}-{}", pid, w);
            let ctx_file = format!("/tmp/nunsim-ctx-{}-{}", pid, w);
            let mut first = w;
            let mut lines: Vec<Json> = Vec::new();
            let mut deaths: Vec<(u64, String, String)> = Vec::new();
            let mut last_status = None;
            let mut err_tail: Vec<String> = Vec::new();
            let mut got_summary = true;
            for _attempt in 0..40 {
                if first >= total {
                    break;
                }
                let _ = std::fs::remove_file(&progress_file);
                let _ = std::fs::remove_file(&ctx_file);
                let mut cmd = Command::new(&exe);
                cmd.args(["worker", &pid_s, &tier_s, &master.to_string(), &w.to_string(), &nw.to_string(), &total.to_string()]);
                for (k, v) in envs.iter() {
                    cmd.env(k, v);
                }
                cmd.env("NUNSIM_PROGRESS_FILE", &progress_file);
                cmd.env("NUNSIM_ABORT_CTX_FILE", &ctx_file);
                cmd.env("NUNSIM_FIRST_INDEX", first.to_string());
                cmd.stdout(Stdio::piped()).stderr(Stdio::piped());
                let mut child = cmd.spawn().expect("spawn worker");
                let stdout = child.stdout.take().unwrap();
                let stderr = child.stderr.take().unwrap();
                let eh = std::thread::spawn(move || {
                    let mut tail: Vec<String> = Vec::new();
                    for l in BufReader::new(stderr).lines().flatten() {
                        tail.push(l);
                        if tail.len() > 12 {
                            tail.remove(0);
                        }
                    }
                    tail
                });
                let mut summary = false;
                for l in BufReader::new(stdout).lines().flatten() {
                    if let Ok(j) = serde_json::from_str::<Json>(&l) {
                        if j.get("type").and_then(|t| t.as_str()) == Some("summary") {
                            summary = true;
                        }
                        lines.push(j);
                    }
                }
                let status = child.wait().ok();
                err_tail = eh.join().unwrap_or_default();
                last_status = status;
                got_summary = summary;
                let clean = status.map(|s| s.code().is_some()).unwrap_or(false);
                if clean {
                    break;
                }
                // killed by a signal: which run was it?
                let idx = std::fs::read(&progress_file).ok().and_then(|b| {
                    if b.len() >= 8 {
                        let mut a = [0u8; 8];
                        a.copy_from_slice(&b[..8]);
                        Some(u64::from_le_bytes(a))
                    } else {
                        None
                    }
                });
                match idx {
                    Some(i) => {
                        let ctx = read_abort_context(&ctx_file).unwrap_or_else(|| "worker-process-died".to_string());
                        deaths.push((i, ctx, format!("{:?}; stderr tail: {:?}", status, err_tail.iter().rev().take(3).collect::<Vec<_>>())));
                        first = i + nw;
                        got_summary = true;
                    }
                    None => break,
                }
            }
            let _ = std::fs::remove_file(&progress_file);
            let _ = std::fs::remove_file(&ctx_file);
            (w, lines, last_status, err_tail, envs, deaths, got_summary)
        }));
    }
    let mut runs = 0u64;
    let mut nontrivial = 0u64;
    let mut hashes: HashSet<u64> = HashSet::new();
    let mut steps = 0u64;
    let mut switches = 0u64;
    let mut sim_ms = 0u64;
    let mut truncated = 0u64;
    let mut discarded: BTreeMap<String, u64> = BTreeMap::new();
    let mut faults: BTreeMap<String, u64> = BTreeMap::new();
    let mut probes: BTreeMap<String, u64> = BTreeMap::new();
    let mut counters: BTreeMap<String, u64> = BTreeMap::new();
    let mut per_scenario: BTreeMap<String, u64> = BTreeMap::new();
    let mut sig_counts: BTreeMap<String, u64> = BTreeMap::new();
    let mut samples: Vec<Json> = Vec::new();
    let mut violations: Vec<(Json, Vec<(String, String)>)> = Vec::new();
    let mut harness_errors: Vec<String> = Vec::new();
    let mut knobs: Vec<Json> = Vec::new();
    let mut capped = false;
    fn addmap(dst: &mut BTreeMap<String, u64>, j: &Json, key: &str, max: bool) {
        if let Some(m) = j.get(key).and_then(|x| x.as_object()) {
            for (k, v) in m {
                let e = dst.entry(k.clone()).or_insert(0);
                let v = v.as_u64().unwrap_or(0);
                if max && k == "net_max_backlog" {
                    *e = (*e).max(v);
                } else {
                    *e += v;
                }
            }
        }
    }
    let mut deaths_all: Vec<(u64, String, String, Vec<(String, String)>)> = Vec::new();
    for h in handles {
        let (w, lines, status, err_tail, envs, deaths, summary_ok) = h.join().unwrap();
        for (i, ctx, why) in deaths {
            deaths_all.push((i, ctx, why, envs.clone()));
        }
        let mut got_summary = false;
        knobs.push(json!({"worker": w, "env": envs.iter().map(|(k,v)| format!("{}={}",k,v)).collect::<Vec<_>>()}));
        for j in lines {
            match j.get("type").and_then(|t| t.as_str()) {
                Some("summary") => {
                    got_summary = true;
                    runs += j["runs"].as_u64().unwrap_or(0);
                    nontrivial += j["nontrivial"].as_u64().unwrap_or(0);
                    steps += j["steps"].as_u64().unwrap_or(0);
                    switches += j["switches"].as_u64().unwrap_or(0);
                    sim_ms += j["sim_ms"].as_u64().unwrap_or(0);
                    truncated += j["truncated"].as_u64().unwrap_or(0);
                    if j["capped"].as_bool().unwrap_or(false) {
                        capped = true;
                    }
                    if let Some(a) = j["hashes"].as_array() {
                        for x in a {
                            if let Some(v) = x.as_u64() {
                                hashes.insert(v);
                            }
                        }
                    }
                    addmap(&mut discarded, &j, "discarded", false);
                    addmap(&mut faults, &j, "faults", false);
                    addmap(&mut probes, &j, "probes", false);
                    addmap(&mut counters, &j, "counters", true);
                    addmap(&mut per_scenario, &j, "per_scenario", false);
                    addmap(&mut sig_counts, &j, "sigs", false);
                    if let Some(a) = j["samples"].as_array() {
                        for s in a {
                            if samples.len() < 4 {
                                samples.push(s.clone());
                            }
                        }
                    }
                }
                Some("violation") => violations.push((j.clone(), envs.clone())),
                Some("harness_error") => harness_errors.push(format!("worker {}: {}", w, j)),
                _ => {}
            }
        }
        let ok = status.map(|s| s.success() || s.code() == Some(2)).unwrap_or(false) || summary_ok;
        if !(got_summary || summary_ok) || !ok {
            harness_errors.push(format!("worker {} died (status {:?}); stderr tail: {:?}", w, status, err_tail));
        }
    }
    let wall = start.elapsed().as_secs_f64();
    for (i, actx, why, envs) in deaths_all.iter() {
        let seed = seed_for(master, p.id(), 0, *i);
        let scenario = pick_scenario(p, seed);
        let sig = format!("process-abort/{}", actx);
        *sig_counts.entry(sig.clone()).or_insert(0) += 1;
        runs += 1;
        violations.push((
            json!({"type":"violation","property":p.id(),"scenario":scenario,"seed":seed,"orig_seed":seed,"clause":"process-abort",
                   "shape":actx,"message":format!("the process running this case died ({}): {}", actx, why),"program":Json::Null,
                   "orig_sig":sig,"trace":[]}),
            envs.clone(),
        ));
    }

    // triage
    let findings = load_findings(p.id());
    let mut known_seen: BTreeMap<usize, u64> = BTreeMap::new();
    let mut new_violations: Vec<(Json, Vec<(String, String)>)> = Vec::new();
    let mut new_sigs: BTreeSet<String> = BTreeSet::new();
    // every signature counted by the workers must be known, otherwise it is a new violation
    for (sig, n) in sig_counts.iter() {
        let (clause, shape) = sig.split_once('/').unwrap_or((sig.as_str(), ""));
        match findings.iter().position(|f| f.clause == clause && shape_matches(&f.shape, shape)) {
            Some(i) => *known_seen.entry(i).or_insert(0) += n,
            None => {
                new_sigs.insert(sig.clone());
            }
        }
    }
    for (v, envs) in violations.iter() {
        let clause = v["clause"].as_str().unwrap_or("");
        let shape = v["shape"].as_str().unwrap_or("");
        let osig = v["orig_sig"].as_str().unwrap_or("").to_string();
        let known = findings.iter().any(|f| f.clause == clause && shape_matches(&f.shape, shape));
        if !known || new_sigs.contains(&osig) {
            new_violations.push((v.clone(), envs.clone()));
        }
    }
    let mut exit = 0;
    for (i, f) in findings.iter().enumerate() {
        println!(
            "KNOWN-FINDING: property={} {}/{} seen={} -- {}",
            p.id(),
            f.clause,
            f.shape,
            known_seen.get(&i).copied().unwrap_or(0),
            f.what
        );
    }
    let mut reported: BTreeSet<String> = BTreeSet::new();
    for (v, envs) in new_violations.iter() {
        let sig = format!("{}/{}", v["clause"].as_str().unwrap_or(""), v["shape"].as_str().unwrap_or(""));
        if !reported.insert(sig.clone()) {
            continue;
        }
        let dir = format!("{}/replays/{}", verif_dir(), p.id());
        let _ = std::fs::create_dir_all(&dir);
        let fname = format!(
            "{}/{}_{:08x}_{}.json",
            dir,
            v["clause"].as_str().unwrap_or("x").replace('/', "_"),
            hash_str(&sig) as u32,
            v["seed"].as_u64().unwrap_or(0)
        );
        let replay = json!({"property": p.id(), "scenario": v["scenario"], "seed": v["seed"], "master_seed": master, "tier": tier_s,
            "env": envs.iter().map(|(k,v)| json!([k,v])).collect::<Vec<_>>(),
            "program": v["program"], "violation": {"clause": v["clause"], "shape": v["shape"]}, "message": v["message"], "trace": v["trace"]});
        let _ = std::fs::write(&fname, serde_json::to_string_pretty(&replay).unwrap());
        // confirm in a fresh process
        let st = Command::new(&exe).args(["replay", &fname]).stdout(Stdio::null()).stderr(Stdio::null()).status();
        match st.map(|s| s.code()) {
            Ok(Some(1)) => {
                println!("VIOLATION property={} replay={}", p.id(), fname);
                println!("  clause={} shape={}", v["clause"], v["shape"]);
                println!("  {}", v["message"].as_str().unwrap_or(""));
                exit = 1;
            }
            other => {
                harness_errors.push(format!("violation {} did not reproduce from {} (replay status {:?})", sig, fname, other));
            }
        }
    }
    if !new_sigs.is_empty() && exit == 0 && harness_errors.is_empty() {
        harness_errors.push(format!("unlisted violation signatures without a replayable report: {:?}", new_sigs));
    }

    // evidence
    let distinct = hashes.len() as u64;
    let ev = json!({
        "property_id": p.id(),
        "tier": tier_s,
        "seed": master,
        "level": p.level(),
        "coverage": {
            "evaluations": runs,
            "distinct_nontrivial": distinct,
            "nontrivial_runs": nontrivial,
            "rule": p.rule(),
            "samples": samples,
            "exhaustive": false,
            "per_scenario": per_scenario,
            "scheduler_steps": steps,
            "task_switches": switches,
            "simulated_seconds": sim_ms as f64 / 1000.0,
            "runs_per_hour": if wall > 0.0 { (runs as f64 / wall * 3600.0) as u64 } else { 0 },
            "faults_fired": faults,
            "probes_hit": probes,
            "counters": counters,
            "truncated_runs": truncated,
            "discarded_runs": discarded,
            "wall_capped": capped,
            "violation_signatures_seen": sig_counts,
            "known_findings_listed": findings.iter().map(|f| format!("{}/{}", f.clause, f.shape)).collect::<Vec<_>>(),
            "components": p.components(),
            "worker_knobs": knobs,
            "harness_errors": harness_errors,
        },
        "assumptions": p.assumptions(),
        "wall_s": wall,
        "violations": new_violations.len(),
    });
    let evdir = format!("{}/evidence", verif_dir());
    let _ = std::fs::create_dir_all(&evdir);
    let _ = std::fs::write(format!("{}/{}.json", evdir, p.id()), serde_json::to_string_pretty(&ev).unwrap());
    println!(
        "nunsim: {} runs ({} non-trivial, {} distinct), {} steps, {:.1} simulated s, {:.1} s wall, faults {:?}, signatures {:?}",
        runs,
        nontrivial,
        distinct,
        steps,
        sim_ms as f64 / 1000.0,
        wall,
        faults,
        sig_counts
    );
    if !harness_errors.is_empty() {
        for e in harness_errors.iter() {
            eprintln!("HARNESS-ERROR: {}", e);
        }
        if exit == 0 {
            return 2;
        }
    }
    exit
}

// ------------------------------------------------------------------------------------------------
// replay / one / determinism
// ------------------------------------------------------------------------------------------------

/// Runs the replay in a child process so that a case that aborts the process is still reported.
fn cmd_replay_outer(args: &[String]) -> i32 {
    let exe = std::env::current_exe().unwrap();
    let mut a = vec!["replay-inner".to_string()];
    a.extend(args.iter().cloned());
    match Command::new(&exe).args(&a).status() {
        Ok(st) => match st.code() {
            Some(c) => c,
            None => {
                let prop = std::fs::read_to_string(&args[0])
                    .ok()
                    .and_then(|t| serde_json::from_str::<Json>(&t).ok())
                    .and_then(|j| j["property"].as_str().map(|s| s.to_string()))
                    .unwrap_or_default();
                println!("replay: the process died ({:?})", st);
                println!("VIOLATION property={} replay={}", prop, args[0]);
                1
            }
        },
        Err(_) => 2,
    }
}

fn cmd_replay(args: &[String]) -> i32 {
    if args.is_empty() {
        return 2;
    }
    let txt = match std::fs::read_to_string(&args[0]) {
        Ok(t) => t,
        Err(e) => {
            eprintln!("cannot read {}: {}", args[0], e);
            return 2;
        }
    };
    let j: Json = match serde_json::from_str(&txt) {
        Ok(j) => j,
        Err(e) => {
            eprintln!("bad replay file: {}", e);
            return 2;
        }
    };
    if let Some(envs) = j["env"].as_array() {
        for e in envs {
            if let (Some(k), Some(v)) = (e[0].as_str(), e[1].as_str()) {
                std::env::set_var(k, v);
            }
        }
    }
    init_process();
    limit_memory();
    let p = match props::by_id(j["property"].as_str().unwrap_or("")) {
        Some(p) => p,
        None => return 2,
    };
    let scenario = j["scenario"].as_str().unwrap_or("").to_string();
    let seed = j["seed"].as_u64().unwrap_or(0);
    let tier = if j["tier"].as_str() == Some("thorough") { Tier::Thorough } else { Tier::Quick };
    let program = if j["program"].is_null() { None } else { Some(j["program"].clone()) };
    let ctx = RunCtx { seed, tier, trace: args.len() > 1 && args[1] == "--trace", program };
    let r = p.run_one(&scenario, &ctx);
    if let Some(e) = r.harness_error {
        eprintln!("harness error: {}", e);
        return 2;
    }
    let want_clause = j["violation"]["clause"].as_str().unwrap_or("");
    let want_shape = j["violation"]["shape"].as_str().unwrap_or("");
    for t in r.trace.iter() {
        println!("{}", t);
    }
    for v in r.violations.iter() {
        println!("violation: {}/{}: {}", v.clause, v.shape, v.message);
    }
    if r.violations.iter().any(|v| v.clause == want_clause && v.shape == want_shape) {
        println!("VIOLATION property={} replay={}", p.id(), args[0]);
        1
    } else if r.violations.is_empty() {
        println!("replay: no violation");
        0
    } else {
        println!("replay: a different violation than recorded");
        1
    }
}

fn cmd_one(args: &[String]) -> i32 {
    if args.len() < 3 {
        return 2;
    }
    init_process();
    let p = match props::by_id(&args[0]) {
        Some(p) => p,
        None => return 2,
    };
    // `one <Cxx> <scenario> <seed>` or `one <Cxx> @ <run index> [master seed]` (the run a batch executes at that index)
    let (scenario, seed): (String, u64) = if args[1] == "@" {
        let master: u64 = args.get(3).and_then(|s| s.parse().ok()).unwrap_or(1);
        let seed = seed_for(master, p.id(), 0, args[2].parse().unwrap());
        (pick_scenario(p, seed).to_string(), seed)
    } else {
        (args[1].clone(), args[2].parse().unwrap())
    };
    eprintln!("scenario={} seed={}", scenario, seed);
    let trace = args.iter().any(|a| a == "--trace");
    let ctx = RunCtx { seed, tier: Tier::Quick, trace, program: None };
    let r = p.run_one(&scenario, &ctx);
    for t in r.trace.iter() {
        println!("{}", t);
    }
    println!("program: {}", r.program);
    println!(
        "steps={} switches={} sim_ms={} nontrivial={} truncated={} discarded={:?} hash={:016x} faults={:?} probes={:?} counters={:?}",
        r.steps, r.switches, r.sim_ms, r.nontrivial, r.truncated, r.discarded, r.event_hash, r.faults, r.probes, r.counters
    );
    if let Some(e) = r.harness_error.as_ref() {
        println!("HARNESS ERROR: {}", e);
    }
    for v in r.violations.iter() {
        println!("violation: {}/{}: {}", v.clause, v.shape, v.message);
    }
    if r.violations.is_empty() {
        0
    } else {
        1
    }
}

/// Print "<seed> <event hash>" for n seeds (the determinism self-test diffs two such listings
/// produced by different processes / worker counts).
fn cmd_hashes(args: &[String]) -> i32 {
    if args.len() < 4 {
        return 2;
    }
    init_process();
    let p = match props::by_id(&args[0]) {
        Some(p) => p,
        None => return 2,
    };
    let master: u64 = args[1].parse().unwrap();
    let from: u64 = args[2].parse().unwrap();
    let to: u64 = args[3].parse().unwrap();
    for i in from..to {
        let seed = seed_for(master, p.id(), 0, i);
        let scenario = pick_scenario(p, seed);
        let ctx = RunCtx { seed, tier: Tier::Quick, trace: false, program: None };
        let r = p.run_one(scenario, &ctx);
        let sigs: Vec<String> = r.violations.iter().map(|v| v.sig()).collect();
        println!("HASH {} {} {:016x} {} {:?} {:?}", i, scenario, r.event_hash, r.steps, sigs, r.harness_error);
    }
    0
}

fn cmd_determinism(args: &[String]) -> i32 {
    // determinism <PROP> <n>: run seeds 0..n twice in differently shaped process sets and diff
    if args.len() < 2 {
        return 2;
    }
    let n: u64 = args[1].parse().unwrap();
    let exe = std::env::current_exe().unwrap();
    let p = match props::by_id(&args[0]) {
        Some(p) => p,
        None => return 2,
    };
    let run_split = |parts: u64| -> Vec<String> {
        let mut hs = Vec::new();
        for k in 0..parts {
            let from = n * k / parts;
            let to = n * (k + 1) / parts;
            let mut cmd = Command::new(&exe);
            cmd.args(["hashes", p.id(), "7", &from.to_string(), &to.to_string()]);
            for (k, v) in p.worker_env(0, 7) {
                cmd.env(k, v);
            }
            cmd.stdout(Stdio::piped()).stderr(Stdio::null());
            hs.push(cmd.spawn().unwrap());
        }
        let mut out = Vec::new();
        for h in hs {
            let o = h.wait_with_output().unwrap();
            // (the code under test prints to stdout too, e.g. "Received signal ..")
            out.extend(String::from_utf8_lossy(&o.stdout).lines().filter(|l| l.starts_with("HASH ")).map(|s| s.to_string()));
        }
        out
    };
    let a = run_split(3);
    let b = run_split(16);
    if a.len() as u64 != n || b.len() as u64 != n {
        eprintln!("determinism: expected {} lines, got {} and {}", n, a.len(), b.len());
        return 2;
    }
    let mut bad = 0;
    for (x, y) in a.iter().zip(b.iter()) {
        if x != y {
            bad += 1;
            if bad < 5 {
                eprintln!("DIVERGENCE:\n  {}\n  {}", x, y);
            }
        }
    }
    println!("determinism {}: {} seeds, {} divergences", p.id(), n, bad);
    if bad == 0 {
        0
    } else {
        2
    }
}
