//! Runtime of the nun-db deterministic simulator: std/crate facades + simulation kernel.
pub mod async_stdx;
pub mod corex;
pub mod disk;
pub mod frame;
pub mod futuresx;
pub mod kernel;
pub mod net;
pub mod signal_hookx;
pub mod stdx;
pub mod timerx;
pub mod tiny_httpx;
pub mod wsx;
pub mod sim;
