fn main() {
    println!("cargo:rustc-cfg=nundb_verif");
    println!("cargo:rerun-if-changed=build.rs");
}
