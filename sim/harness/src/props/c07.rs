//! C07 -- elections end with exactly one primary, the oldest node, and all agree.
use crate::common::*;
use crate::world::*;
use nundb_verif_rt::kernel::{self, with, Rng, MS};
use nundb_verif_rt::sim::{run_sim, SimConfig};
use serde::{Deserialize, Serialize};
use serde_json::{json, Value as Json};

pub struct C07;

#[derive(Clone, Debug, Serialize, Deserialize, PartialEq)]
pub enum Trigger {
    /// `debug force-election` sent by an administrator to node i
    Force { node: usize },
    /// two forced elections released at the same instant
    ForceTwo { a: usize, b: usize },
    /// the current primary's process is killed
    KillPrimary,
    /// a secondary is killed
    KillSecondary,
    /// a dead node is started again (joins)
    Restart,
    /// nothing: only the initial start-up is judged
    None,
}

#[derive(Clone, Debug, Serialize, Deserialize)]
pub struct Program {
    pub nodes: usize,
    /// simulated ms between the boots of consecutive nodes (0 = simultaneous start-up)
    pub boot_gap_ms: Vec<u64>,
    /// one-way latency bounds in microseconds (kept below timeout/4)
    pub latency_us: (u64, u64),
    pub triggers: Vec<Trigger>,
    /// one direction of one link is slow (from node, to node, one-way latency in microseconds): longer than the
    /// 100 ms a candidate waits before it claims the election, still well below the election timeout
    #[serde(default)]
    pub slow_link: Option<(usize, usize, u64)>,
    /// the link is slow from the first boot on (the start-up elections and joins run under it; no triggers follow)
    #[serde(default)]
    pub slow_from_boot: bool,
}

fn gen(rng: &mut Rng) -> Program {
    let nodes = rng.range(2, 3) as usize;
    let timeout = election_timeout_ms();
    let boot_gap_ms: Vec<u64> = (0..nodes)
        .map(|_| match rng.below(4) {
            0 => rng.range(1, 30),
            1 => rng.range(200, 900),
            _ => rng.range(1_200, 2_500),
        })
        .collect();
    let maxlat = (timeout * 1000 / 4).min(200_000);
    let latency_us = if rng.chance(1, 2) {
        (0, 0)
    } else {
        let hi = rng.range(2_000, maxlat.max(2_001));
        // a third of these: every message is slow (a narrow band below the bound), not only the unlucky ones
        let hi = if rng.chance(1, 3) { maxlat.max(2_001) - rng.below(maxlat / 8 + 1) } else { hi };
        let lo = if rng.chance(1, 3) { hi * 3 / 4 } else { rng.range(0, 2_000) };
        (lo, hi)
    };
    let nt = rng.range(0, 3) as usize;
    let mut triggers = Vec::new();
    for _ in 0..nt {
        triggers.push(match rng.below(10) {
            0..=3 => Trigger::Force { node: rng.below(nodes as u64) as usize },
            4 => {
                let a = rng.below(nodes as u64) as usize;
                Trigger::ForceTwo { a, b: (a + 1) % nodes }
            }
            5 | 6 => Trigger::KillPrimary,
            7 => Trigger::KillSecondary,
            _ => Trigger::Restart,
        });
    }
    if triggers.is_empty() {
        triggers.push(Trigger::None);
    }
    let slow_link = if rng.chance(1, 4) {
        let a = rng.below(nodes as u64) as usize;
        let b = (a + 1 + rng.below(nodes as u64 - 1) as usize) % nodes;
        let hi = (timeout * 1000 * 45 / 100).max(130_000);
        Some((a, b, rng.range(120_000, hi)))
    } else {
        None
    };
    let slow_from_boot = slow_link.is_some() && rng.chance(1, 3);
    let triggers = if slow_from_boot { vec![Trigger::None] } else { triggers };
    Program { nodes, boot_gap_ms, latency_us, triggers, slow_link, slow_from_boot }
}

struct Outcome {
    violations: Vec<Violation>,
    elections_judged: u64,
    settle_ms: Vec<u64>,
}

fn describe(w: &World) -> String {
    (0..w.nodes.len())
        .map(|i| {
            let v = w.view(i);
            if !v.alive {
                format!("n{}:dead", i + 1)
            } else {
                format!("n{}:{}(pid {}) members {:?}", i + 1, v.role, v.process_id % 100_000, v.members)
            }
        })
        .collect::<Vec<_>>()
        .join("; ")
}

/// wait until the cluster is quiet and judge it
/// `earlier` = the triggers applied before `trigger` in this history (the minimised history keeps only
/// the ones the failure needs): part of the violation shape, an earlier election can leave latent damage.
fn judge(w: &World, trigger: &str, earlier: &[String], nodes: usize, class: &str, out: &mut Outcome) -> bool {
    let timeout = election_timeout_ms();
    let budget_ms = 6 * (timeout + 1_100);
    let t0 = kernel::now();
    let deadline = t0 + budget_ms * MS;
    // quiet = agreed view that stays unchanged, with no traffic, for a settle window
    let window = (timeout + 300).max(500);
    let mut ok = false;
    loop {
        if w.agreed_primary().is_ok() {
            let before = describe(w);
            let quiet = w.settle(window, window + 200);
            if quiet && w.agreed_primary().is_ok() && describe(w) == before {
                ok = true;
                break;
            }
        }
        if kernel::now() >= deadline {
            break;
        }
        sleep_ms(50);
    }
    out.elections_judged += 1;
    let shape = if earlier.is_empty() {
        format!("{}:{}nodes:{}", trigger, nodes, class)
    } else {
        format!("{}:{}nodes:{}:after:{}", trigger, nodes, class, earlier.join("+"))
    };
    if !ok {
        let why = w.agreed_primary().err().unwrap_or_else(|| "the cluster keeps exchanging messages".to_string());
        let live: Vec<usize> = (0..nodes).filter(|i| w.alive(*i)).collect();
        let roles: Vec<String> = live.iter().map(|i| w.view(*i).role).collect();
        let np = roles.iter().filter(|r| *r == "Primary").count();
        let clause = if np == 0 {
            "no-primary"
        } else if np > 1 {
            "two-primaries"
        } else if roles.iter().any(|r| r == "StartingUp") {
            "no-termination"
        } else {
            "disagreement"
        };
        out.violations.push(Violation::new(
            clause,
            shape,
            format!("{} simulated ms after trigger `{}` (budget {} ms): {}; state: {}", (kernel::now() - t0) / MS, trigger, budget_ms, why, describe(w)),
        ));
        return false;
    }
    out.settle_ms.push((kernel::now() - t0) / MS);
    // the primary must be the longest-running live node
    let p = w.agreed_primary().unwrap();
    let oldest = (0..nodes).filter(|i| w.alive(*i)).min_by_key(|i| w.view(*i).process_id).unwrap();
    if p != oldest {
        out.violations.push(Violation::new(
            "wrong-primary",
            shape,
            format!("after trigger `{}` node n{} is primary but the oldest live node is n{}; state: {}", trigger, p + 1, oldest + 1, describe(w)),
        ));
        return false;
    }
    true
}

fn execute(prog: Program) -> Outcome {
    let mut out = Outcome { violations: vec![], elections_judged: 0, settle_ms: vec![] };
    let w = World::new(prog.nodes);
    with(|k| {
        k.net.latency = ((prog.latency_us.0 * 1000).max(50_000), (prog.latency_us.1 * 1000).max(50_000));
        if prog.latency_us.1 > 0 {
            k.fault("link_latency");
        }
        if let (Some((a, b, us)), true) = (prog.slow_link, prog.slow_from_boot) {
            k.net.link_latency.insert((w.nodes[a].idx, w.nodes[b].idx), (us * 1000, us * 1000));
            k.fault("slow_link_from_boot");
        }
    });
    let addrs = w.all_tcp();
    for i in 0..prog.nodes {
        w.boot(i, &addrs);
        sleep_ms(prog.boot_gap_ms[i].max(1));
    }
    // boot timing and latency class (part of the violation shape)
    let gaps = &prog.boot_gap_ms[..prog.nodes - 1];
    let mingap = gaps.iter().cloned().min().unwrap_or(0);
    let class = format!(
        "{}:{}",
        if mingap < 1_100 { "boot-within-initial-election-delay" } else { "boot-staggered" },
        if prog.slow_link.is_some() && prog.slow_from_boot {
            "slow-link-at-boot"
        } else if prog.slow_link.is_some() {
            "slow-link"
        } else if prog.latency_us.1 > 0 {
            "latency"
        } else {
            "lan"
        }
    );
    let class = class.as_str();
    if !judge(&w, "startup", &[], prog.nodes, class, &mut out) {
        return out;
    }
    // the link turns slow once the cluster has formed (the elections judged under it are those of the triggers)
    if let (Some((a, b, us)), false) = (prog.slow_link, prog.slow_from_boot) {
        with(|k| {
            k.net.link_latency.insert((w.nodes[a].idx, w.nodes[b].idx), (us * 1000, us * 1000));
            k.fault("slow_link_one_direction");
        });
    }
    let mut earlier: Vec<String> = Vec::new();
    for t in prog.triggers.iter() {
        let name: String = match t {
            Trigger::None => continue,
            Trigger::Force { node } => {
                if !w.alive(*node) {
                    continue;
                }
                let dbs = match w.dbs(*node) {
                    Some(d) => d,
                    None => continue,
                };
                with(|k| k.fault("forced_election"));
                let role = w.view(*node).role;
                let _h = spawn_on_node(&w, *node, "force-election", move || {
                    let mut s = Session::admin(&dbs);
                    s.exec("debug force-election");
                });
                format!("force-election@{}", role)
            }
            Trigger::ForceTwo { a, b } => {
                if !w.alive(*a) || !w.alive(*b) {
                    continue;
                }
                with(|k| k.fault("simultaneous_elections"));
                for n in [*a, *b] {
                    if let Some(dbs) = w.dbs(n) {
                        let _h = spawn_on_node(&w, n, "force-election", move || {
                            let mut s = Session::admin(&dbs);
                            s.exec("debug force-election");
                        });
                    }
                }
                "two-force-elections".to_string()
            }
            Trigger::KillPrimary => match w.agreed_primary() {
                Ok(p) => {
                    if (0..prog.nodes).filter(|i| w.alive(*i)).count() < 2 {
                        continue;
                    }
                    w.kill(p);
                    "primary-killed".to_string()
                }
                Err(_) => continue,
            },
            Trigger::KillSecondary => match w.agreed_primary() {
                Ok(p) => {
                    let s = (0..prog.nodes).find(|i| *i != p && w.alive(*i));
                    match s {
                        Some(s) => {
                            w.kill(s);
                            "secondary-killed".to_string()
                        }
                        None => continue,
                    }
                }
                Err(_) => continue,
            },
            Trigger::Restart => {
                let d = (0..prog.nodes).find(|i| !w.alive(*i));
                match d {
                    Some(d) => {
                        with(|k| k.fault("restart"));
                        w.boot(d, &addrs);
                        "node-rejoins".to_string()
                    }
                    None => continue,
                }
            }
        };
        sleep_ms(5);
        if !judge(&w, &name, &earlier, prog.nodes, class, &mut out) {
            return out;
        }
        earlier.push(name);
    }
    out
}

impl Property for C07 {
    fn id(&self) -> &'static str {
        "C07"
    }
    fn scenarios(&self) -> Vec<(&'static str, u32)> {
        vec![("elections", 1)]
    }
    fn budget(&self) -> (u64, u64) {
        (8_000, 150_000)
    }
    fn rule(&self) -> &'static str {
        "clusters of 2-3 real nodes (real start_db, join, election, set-primary traffic over the simulated TCP with one thread per connection) booted 1 ms - 2.5 s apart, link latency 0 or up to min(timeout/4, 200 ms), election timeout per worker in {400,1000,2000} ms, followed by 0-3 triggers of {debug force-election on any node, two at once, kill of the primary, kill of a secondary, restart of a dead node}; timers fire only when no task can run (messages are faster than the timeout). After start-up and after every trigger the cluster must become quiet within 6 x (timeout + 1.1 s) with exactly one primary = the live node with the smallest process id, all others secondary, every member table naming that primary. The violation shape names the failing trigger, the cluster size, the boot/latency class and the triggers applied earlier in the (minimised) history. Non-trivial: at least one election beyond a single-node start-up was judged. distinct = distinct (program, task-switch sequence)."
    }
    fn assumptions(&self) -> Vec<String> {
        vec![
            "judged only at quiescence; transient StartingUp / double claims during an election are not violations".into(),
            "'longest-running' is read as smallest process id (start time in ms of the node's own clock); node clocks are not skewed in this check".into(),
        ]
    }
    fn components(&self) -> Json {
        json!({"real": ["election_ops", "process_request join/leave/set-primary/election", "replication supervisor + loop + start_replication links", "tcp_ops handlers (incl. disconnect => leave)", "main.rs start_db"],
               "simulated": ["TCP (latency, kill => EOF)", "clock/timers", "threads"], "stub": []})
    }
    fn worker_env(&self, w: u64, _master: u64) -> Vec<(String, String)> {
        let t = ["1000", "400", "2000", "1000"];
        vec![("NUN_ELECTION_TIMEOUT".to_string(), t[(w % 4) as usize].to_string())]
    }
    fn run_one(&self, scenario: &str, ctx: &RunCtx) -> RunReport {
        let mut rng = Rng::new(ctx.seed);
        let prog: Program = match &ctx.program {
            Some(p) => serde_json::from_value(p.clone()).expect("program"),
            None => gen(&mut rng),
        };
        let mut cfg = SimConfig::new(ctx.seed ^ 0xc07);
        cfg.policy = policy_for(Rng::new(ctx.seed ^ 0x9011c7).next_u64());
        cfg.trace = ctx.trace;
        cfg.max_steps = 6_000_000;
        let p2 = prog.clone();
        let outcome = run_sim(cfg, move || execute(p2));
        clear_registry();
        let mut rep = RunReport { seed: ctx.seed, scenario: scenario.to_string(), ..Default::default() };
        rep.program = serde_json::to_value(&prog).unwrap();
        rep.absorb_kernel(&outcome.kernel);
        if let Some(p) = outcome.harness_panic {
            rep.harness_error = Some(p);
            return rep;
        }
        let out = match outcome.result {
            Some(o) => o,
            None => {
                rep.discarded = Some("truncated".into());
                return rep;
            }
        };
        for p in outcome.kernel.panics.iter() {
            rep.violations.push(Violation::new("panic", p.location.rsplit('/').next().unwrap_or("?").to_string(), format!("{} at {} (task {} of node {:?})", p.message, p.location, p.task, p.node)));
        }
        rep.violations.extend(out.violations);
        rep.nontrivial = out.elections_judged > 0;
        rep.counters.insert("elections_judged".into(), out.elections_judged);
        rep.counters.insert("settle_ms_total".into(), out.settle_ms.iter().sum());
        rep.case_hash = kernel::mix(hash_str(&rep.program.to_string()), outcome.kernel.switch_hash);
        rep
    }
    fn shrink(&self, _scenario: &str, program: &Json) -> Vec<Json> {
        let p: Program = match serde_json::from_value(program.clone()) {
            Ok(p) => p,
            Err(_) => return vec![],
        };
        let mut out = Vec::new();
        for i in 0..p.triggers.len() {
            let mut q = p.clone();
            q.triggers.remove(i);
            out.push(serde_json::to_value(&q).unwrap());
        }
        if p.slow_link.is_some() {
            let mut q = p.clone();
            q.slow_link = None;
            out.push(serde_json::to_value(&q).unwrap());
        }
        if p.latency_us != (0, 0) {
            let mut q = p.clone();
            q.latency_us = (0, 0);
            out.push(serde_json::to_value(&q).unwrap());
        }
        if p.nodes == 3 && !p.triggers.iter().any(|t| matches!(t, Trigger::Force { node: 2 } | Trigger::ForceTwo { .. })) {
            let mut q = p.clone();
            q.nodes = 2;
            q.boot_gap_ms.truncate(2);
            out.push(serde_json::to_value(&q).unwrap());
        }
        out
    }
}
