//! One simulated execution: installs a kernel, runs the harness closure as task 0 under the
//! simulation scheduler, and returns the kernel (stats, panics, hashes) with the closure's result.
use crate::kernel::{self, with, Kernel, Policy, TaskMeta};
use std::panic::{catch_unwind, AssertUnwindSafe};
use std::sync::{Arc, Mutex};

#[derive(Clone, Debug)]
pub struct SimConfig {
    pub seed: u64,
    pub policy: Policy,
    pub max_steps: u64,
    pub stack_size: usize,
    pub trace: bool,
    /// model std's writer-preferring RwLock (Linux futex implementation): once a writer is queued, new
    /// readers wait -- a recursive read lock then deadlocks. Half of the seeds run with it (swarm style).
    pub rwlock_writer_preference: bool,
    /// reading the wall clock is a scheduling point for node tasks (half of the seeds): the thread can be
    /// preempted between taking a timestamp (operation ids!) and using it
    pub preempt_after_clock: bool,
}

impl SimConfig {
    pub fn new(seed: u64) -> SimConfig {
        let rwlock_writer_preference = match std::env::var("NUNSIM_RWLOCK").ok().as_deref() {
            Some("fair") => true,
            Some("unfair") => false,
            _ => kernel::mix(seed, 0x7277_6c6f_636b) & 1 == 1,
        };
        let preempt_after_clock = match std::env::var("NUNSIM_CLOCK_PREEMPT").ok().as_deref() {
            Some("on") => true,
            Some("off") => false,
            _ => kernel::mix(seed, 0x636c_6f63_6b70) & 1 == 1,
        };
        SimConfig { seed, policy: Policy::Random, max_steps: 3_000_000, stack_size: 1 << 20, trace: false, rwlock_writer_preference, preempt_after_clock }
    }
}

pub struct SimOutcome<R> {
    pub result: Option<R>,
    pub kernel: Box<Kernel>,
    pub harness_panic: Option<String>,
}

fn install_hook() {
    let verbose = std::env::var("NUNSIM_VERBOSE_PANICS").is_ok();
    std::panic::set_hook(Box::new(move |info| {
        let msg = if let Some(s) = info.payload().downcast_ref::<&str>() {
            s.to_string()
        } else if let Some(s) = info.payload().downcast_ref::<String>() {
            s.clone()
        } else {
            "<non-string panic>".to_string()
        };
        let loc = info.location().map(|l| format!("{}:{}", l.file(), l.line())).unwrap_or_else(|| "?".into());
        if verbose {
            eprintln!("[sim panic] {} at {}", msg, loc);
            if std::env::var("NUNSIM_PANIC_BT").is_ok() {
                eprintln!("{}", std::backtrace::Backtrace::force_capture());
            }
        }
        kernel::set_last_panic(msg, loc);
    }));
}

pub fn run_sim<R, F>(cfg: SimConfig, f: F) -> SimOutcome<R>
where
    R: Send + 'static,
    F: FnOnce() -> R + Send + 'static,
{
    let mut k = Kernel::new(cfg.seed);
    k.max_steps = cfg.max_steps;
    k.set_policy(cfg.policy);
    k.preempt_after_clock = cfg.preempt_after_clock;
    if cfg.trace {
        k.trace = Some(Vec::new());
    }
    kernel::install(k);
    shuttle::sync::set_rwlock_writer_preference(cfg.rwlock_writer_preference);
    let slot: Arc<Mutex<Option<R>>> = Arc::new(Mutex::new(None));
    let fcell: Arc<Mutex<Option<F>>> = Arc::new(Mutex::new(Some(f)));
    let mut sc = shuttle::Config::new();
    sc.stack_size = cfg.stack_size;
    sc.max_steps = shuttle::MaxSteps::None;
    sc.failure_persistence = shuttle::FailurePersistence::None;
    sc.silence_warnings = true;
    let runner = shuttle::Runner::new(kernel::SimScheduler::new(), sc);
    let slot2 = slot.clone();
    let res = catch_unwind(AssertUnwindSafe(move || {
        runner.run(move || {
            install_hook();
            let me = kernel::me();
            with(|k| k.set_meta(me, TaskMeta { node: None, gen: 0, name: "harness".into(), ord: 0 }));
            let f = fcell.lock().unwrap().take().expect("single execution");
            let r = f();
            *slot2.lock().unwrap() = Some(r);
            with(|k| k.finished = true);
        });
    }));
    let harness_panic = match res {
        Ok(_) => None,
        Err(p) => {
            let (m, l) = kernel::take_last_panic().unwrap_or_else(|| {
                let m = if let Some(s) = p.downcast_ref::<&str>() {
                    s.to_string()
                } else if let Some(s) = p.downcast_ref::<String>() {
                    s.clone()
                } else {
                    "<non-string panic>".to_string()
                };
                (m, "?".into())
            });
            Some(format!("{} at {}", m, l))
        }
    };
    kernel::try_with(|k| k.trace_tasks());
    let kernel = kernel::uninstall().expect("kernel present");
    let result = slot.lock().unwrap().take();
    SimOutcome { result, kernel, harness_panic }
}

// ------------------------------------------------------------------------------------------------
// log capture: nun-db's own `log` records are used as zero-cost probes
// ------------------------------------------------------------------------------------------------

struct ProbeLogger;
static PROBES: Mutex<Vec<(&'static str, &'static str)>> = Mutex::new(Vec::new());

impl log::Log for ProbeLogger {
    fn enabled(&self, m: &log::Metadata) -> bool {
        m.level() <= log::max_level()
    }
    fn log(&self, record: &log::Record) {
        if !self.enabled(record.metadata()) {
            return;
        }
        let msg = match record.args().as_str() {
            Some(s) => std::borrow::Cow::Borrowed(s),
            None => std::borrow::Cow::Owned(record.args().to_string()),
        };
        let probes = PROBES.lock().unwrap();
        let mut hit: Option<&'static str> = None;
        for (needle, name) in probes.iter() {
            if msg.contains(needle) {
                hit = Some(name);
                break;
            }
        }
        drop(probes);
        let lvl = record.level();
        kernel::try_with(|k| {
            if let Some(h) = hit {
                k.probe(h);
            }
            if lvl == log::Level::Error {
                k.probe("log_error");
            }
            if k.trace.is_some() {
                let m = msg.to_string();
                let lvl = record.level();
                k.trace_ev(|| format!("log {} {}", lvl, m));
            }
        });
    }
    fn flush(&self) {}
}

pub fn init_logging(level: log::LevelFilter, probes: Vec<(&'static str, &'static str)>) {
    static LOGGER: ProbeLogger = ProbeLogger;
    let _ = log::set_logger(&LOGGER);
    log::set_max_level(level);
    *PROBES.lock().unwrap() = probes;
}
