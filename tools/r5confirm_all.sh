#!/bin/bash
# confirm both round-5 changes of each property given on stdin lines, 4 at a time, then drop the property's worktree (disk)
xargs -P ${1:-4} -I{} sh -c 'for n in 10 11; do SUITE_THREADS=4 /verif/tools/r5confirm.sh {} $n; done; git -C /repo worktree remove --force /tmp/r5/{}/wt; rm -rf /tmp/r5/{}/wt'
