//! `core` facade (nun-db's security.rs imports atomics through `core::`).
pub use ::core::*;
pub mod sync {
    pub use ::core::sync::*;
    pub mod atomic {
        pub use shuttle::sync::atomic::*;
    }
}
