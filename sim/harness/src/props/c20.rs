//! C20 -- HTTP replies line up, entry by entry, with the commands that caused them.
use crate::common::*;
use crate::kv::*;
use crate::world::*;
use nundb::bo::Databases;
use nundb_verif_rt::kernel::{self, Rng};
use nundb_verif_rt::sim::{run_sim, SimConfig};
use nundb_verif_rt::stdx::sync::Arc;
use serde::{Deserialize, Serialize};
use serde_json::{json, Value as Json};

pub struct C20;

#[derive(Clone, Debug, Serialize, Deserialize, PartialEq)]
pub enum Cmd {
    AuthOk,
    AuthBad,
    UseDbOk,
    UseDbBad,
    UseDbUser,
    /// select the second database (a session that watched a key of the first one keeps that subscription until it
    /// ends -- and must lose it then)
    UseDbSecond,
    Get { key: String },
    GetSafe { key: String },
    Set { key: String, val: String },
    SetSafeOk { key: String, val: String },
    SetSafeStale { key: String, val: String },
    Remove { key: String },
    IncOk,
    IncNonNumeric,
    Keys,
    /// subscribe to a key: later writes of the same request to that key notify the request's own session
    Watch { key: String },
    CreateDb { n: u32 },
    /// blank statement (only separators)
    Blank,
    /// a statement the parser refuses (missing arguments, not a number where one is needed, an unknown word): its
    /// error text is its entry
    Malformed { text: String },
}

#[derive(Clone, Debug, Serialize, Deserialize)]
pub struct Program {
    pub cmds: Vec<Cmd>,
    pub trailing_semicolon: bool,
    pub spaces: bool,
    /// send the same commands in one WebSocket frame instead (only execution is judged there)
    pub websocket: bool,
    /// HTTP requests of other clients (against a database set of their own) served before the judged one:
    /// whatever they leave behind in a worker must not show in the judged request's entries
    #[serde(default)]
    pub earlier_requests: Vec<Vec<Cmd>>,
}

const KEYS: [&str; 4] = ["ka", "kb", "$$sec", "txt"];

fn gen(rng: &mut Rng, ws: bool) -> Program {
    let mut p = gen_one(rng, ws);
    if rng.chance(1, 2) {
        let k = rng.range(1, 4) as usize;
        for _ in 0..k {
            let q = gen_one(rng, false);
            p.earlier_requests.push(q.cmds);
        }
    }
    p
}

fn gen_one(rng: &mut Rng, ws: bool) -> Program {
    let n = rng.range(1, 6) as usize;
    let mut cmds = Vec::new();
    let mut uniq = 0;
    for _ in 0..n {
        let key = KEYS[rng.below(KEYS.len() as u64) as usize].to_string();
        uniq += 1;
        cmds.push(match rng.below(22) {
            0 => Cmd::AuthOk,
            1 => Cmd::AuthBad,
            2..=4 => Cmd::UseDbOk,
            5 => Cmd::UseDbBad,
            6 => {
                if rng.chance(1, 2) {
                    Cmd::UseDbUser
                } else {
                    Cmd::UseDbSecond
                }
            }
            7 | 8 => Cmd::Get { key },
            9 => Cmd::GetSafe { key },
            10 | 11 => {
                // one value in eight makes the body longer than the 1 KiB the HTTP layer pre-loads
                let val = if rng.chance(1, 8) { format!("v{}{}", uniq, "x".repeat(rng.range(1_100, 3_000) as usize)) } else { format!("v{}", uniq) };
                Cmd::Set { key, val }
            }
            12 => Cmd::SetSafeOk { key, val: format!("s{}", uniq) },
            13 => Cmd::SetSafeStale { key, val: format!("t{}", uniq) },
            14 => Cmd::Remove { key },
            15 => Cmd::IncOk,
            16 => Cmd::IncNonNumeric,
            17 => Cmd::Keys,
            18 => Cmd::CreateDb { n: rng.range(1, 2) as u32 },
            19 | 20 => Cmd::Watch { key },
            _ => {
                if rng.chance(1, 2) {
                    Cmd::Blank
                } else {
                    const BAD: [&str; 16] = [
                        "use-db {S}db", "use-db", "set", "set ka", "set-safe ka", "set-safe ka x v", "get", "create-db", "create-db {S}x", "increment", "resolve 1",
                        "resolve x {S}db ka 1 v", "election", "auth", "zzz ka", "snapshot maybe",
                    ];
                    Cmd::Malformed { text: BAD[rng.below(BAD.len() as u64) as usize].to_string() }
                }
            }
        });
    }
    Program { cmds, trailing_semicolon: rng.chance(1, 2), spaces: rng.chance(1, 3), websocket: ws, earlier_requests: vec![] }
}

/// render against the database set with the given prefix ("h" = HTTP side, "r" = reference side)
fn render(c: &Cmd, side: &str) -> String {
    match c {
        Cmd::AuthOk => format!("auth {} {}", USER, PWD),
        Cmd::AuthBad => format!("auth {} wrong", USER),
        Cmd::UseDbOk => format!("use-db {}db tok", side),
        Cmd::UseDbBad => format!("use-db {}db nope", side),
        Cmd::UseDbUser => format!("use-db {}db u1 pw1", side),
        Cmd::UseDbSecond => format!("use-db {}db2 tok2", side),
        Cmd::Get { key } => format!("get {}", key),
        Cmd::GetSafe { key } => format!("get-safe {}", key),
        Cmd::Set { key, val } => format!("set {} {}", key, val),
        Cmd::SetSafeOk { key, val } => format!("set-safe {} 50 {}", key, val),
        Cmd::SetSafeStale { key, val } => format!("set-safe {} 0 {}", key, val),
        Cmd::Remove { key } => format!("remove {}", key),
        Cmd::IncOk => "increment n 3".to_string(),
        Cmd::IncNonNumeric => "increment txt 1".to_string(),
        Cmd::Keys => "keys k".to_string(),
        Cmd::Watch { key } => format!("watch {}", key),
        Cmd::CreateDb { n } => format!("create-db {}new{} tk none", side, n),
        Cmd::Blank => String::new(),
        Cmd::Malformed { text } => text.replace("{S}", side),
    }
}

struct Outcome {
    setup: Result<(), String>,
    violations: Vec<Violation>,
    had_refusal_before_success: bool,
}

fn prepare(dbs: &Arc<Databases>, side: &str) -> bool {
    let mut a = Session::admin(dbs);
    if a.exec(&format!("create-db {}db tok none", side)).resp.is_err() {
        return false;
    }
    a.exec(&format!("use-db {}db tok", side));
    a.exec("set ka a0");
    a.exec("set ka a1");
    a.exec("set ka a2");
    a.exec("set kb b0");
    a.exec("set kb b1");
    a.exec("set txt hello");
    a.exec("set n 5");
    a.exec("set $$sec hidden");
    a.exec("create-user u1 pw1");
    a.exec("set-permissions u1 r k*");
    a.disconnect();
    let mut a = Session::admin(dbs);
    if a.exec(&format!("create-db {}db2 tok2 none", side)).resp.is_err() {
        return false;
    }
    a.exec(&format!("use-db {}db2 tok2", side));
    a.exec("set ka second-a");
    a.exec("set kb second-b");
    a.exec("set txt second");
    a.exec("set n 7");
    a.disconnect();
    true
}

fn kind(c: &Cmd) -> &'static str {
    match c {
        Cmd::AuthOk => "auth-ok",
        Cmd::AuthBad => "auth-bad",
        Cmd::UseDbOk => "use-db-ok",
        Cmd::UseDbBad => "use-db-bad",
        Cmd::UseDbUser => "use-db-user",
        Cmd::UseDbSecond => "use-db-second",
        Cmd::Get { .. } => "get",
        Cmd::GetSafe { .. } => "get-safe",
        Cmd::Set { .. } => "set",
        Cmd::SetSafeOk { .. } => "set-safe-ok",
        Cmd::SetSafeStale { .. } => "set-safe-stale",
        Cmd::Remove { .. } => "remove",
        Cmd::Malformed { .. } => "malformed-bad",
        Cmd::IncOk => "increment",
        Cmd::IncNonNumeric => "increment-non-numeric",
        Cmd::Keys => "keys",
        Cmd::Watch { .. } => "watch",
        Cmd::CreateDb { .. } => "create-db",
        Cmd::Blank => "blank",
    }
}

fn execute(prog: Program) -> Outcome {
    let mut out = Outcome { setup: Err("boot".into()), violations: vec![], had_refusal_before_success: false };
    let w = World::new(1);
    w.boot(0, "");
    if !w.wait_primary(0, 5_000) {
        out.setup = Err("setup_unstable".into());
        return out;
    }
    let dbs = match w.dbs(0) {
        Some(d) => d,
        None => return out,
    };
    if !prepare(&dbs, "h") || !prepare(&dbs, "r") || (!prog.earlier_requests.is_empty() && !prepare(&dbs, "p")) {
        return out;
    }
    let (http, ws) = (w.nodes[0].http.clone(), w.nodes[0].ws.clone());
    if !wait_cond(1_000, 1, || nundb_verif_rt::kernel::with(|k| k.net.lookup(&http).is_some() && k.net.lookup(&ws).is_some())) {
        out.setup = Err("setup_unstable".into());
        return out;
    }
    out.setup = Ok(());
    // other clients' requests, served by the same workers before the judged one
    for cmds in prog.earlier_requests.iter() {
        let body = cmds.iter().map(|c| render(c, "p")).collect::<Vec<_>>().join(";");
        if http_request(&http, &body, 3_000).is_none() {
            out.violations.push(Violation::new("no-reply", "http".to_string(), format!("earlier body {:?} got no reply", body)));
            return out;
        }
    }
    // reference: every command alone, in order, on a session of its own kind (fresh client), mirrored databases
    let mut reference = Session::new(&dbs);
    let mut expected: Vec<(String, &'static str)> = Vec::new();
    let mut seen_refusal = false;
    for c in prog.cmds.iter() {
        if *c == Cmd::Blank {
            continue;
        }
        let r = reference.exec(&render(c, "r"));
        let entry = match &r.resp {
            Resp::Error(m) => {
                seen_refusal = true;
                m.clone()
            }
            Resp::VersionError { .. } => {
                seen_refusal = true;
                "Invalid version!".to_string()
            }
            _ => {
                if seen_refusal {
                    out.had_refusal_before_success = true;
                }
                r.msgs.first().cloned().unwrap_or_else(|| "empty".to_string())
            }
        };
        expected.push((entry.replace("rdb", "Xdb").replace("rnew", "Xnew"), kind(c)));
    }
    reference.disconnect();
    // the request
    let sep = if prog.spaces { " ; " } else { ";" };
    let mut body = prog.cmds.iter().map(|c| render(c, "h")).collect::<Vec<_>>().join(sep);
    if prog.trailing_semicolon {
        body.push(';');
    }
    let shape_of = |i: usize| -> String {
        // kind of the nearest refused command before entry i (what could have shifted it)
        let mut prev = "none";
        for j in (0..i).rev() {
            let e = &expected[j];
            if e.1 == "auth-bad" || e.1.contains("bad") || e.1.contains("stale") || e.1.contains("non-numeric") || e.0.starts_with("error") || e.0.contains("permission") || e.0.contains("admin") || e.0.contains("Invalid") || e.0.contains("Not auth") || e.0.contains("only allow") {
                prev = e.1;
                break;
            }
        }
        format!("{}-after-{}", expected[i].1, prev)
    };
    if prog.websocket {
        let mut c = match WsClient::connect(&ws) {
            Some(c) => c,
            None => return out,
        };
        if c.request(&body, 3_000).is_none() {
            out.violations.push(Violation::new("no-reply", "websocket".to_string(), format!("frame {:?} got no reply", body)));
            return out;
        }
        c.close_clean();
        sleep_ms(10);
    } else {
        let reply = match http_request(&http, &body, 3_000) {
            Some(r) => r,
            None => {
                out.violations.push(Violation::new("no-reply", "http".to_string(), format!("body {:?} got no reply", body)));
                return out;
            }
        };
        let got: Vec<String> = if reply.is_empty() && expected.is_empty() { vec![] } else { split_entries(&reply, expected.len()) };
        let got_norm: Vec<String> = got.iter().map(|e| e.replace("hdb", "Xdb").replace("hnew", "Xnew")).collect();
        if got_norm.len() != expected.len() {
            out.violations.push(Violation::new(
                "entry-count",
                format!("{}-commands", expected.len().min(6)),
                format!("body {:?}: {} commands, {} entries: {:?}", body, expected.len(), got_norm.len(), got_norm),
            ));
        } else {
            for i in 0..expected.len() {
                if got_norm[i] != expected[i].0 {
                    let clause = if expected.iter().any(|e| e.0 == got_norm[i]) { "shifted-entry" } else { "wrong-entry" };
                    out.violations.push(Violation::new(
                        clause,
                        shape_of(i),
                        format!("body {:?}: entry {} is {:?}, command `{}` alone produces {:?}; all entries {:?}, expected {:?}", body, i, got_norm[i], render(&prog.cmds.iter().filter(|c| **c != Cmd::Blank).nth(i).unwrap(), "h"), expected[i].0, got_norm, expected.iter().map(|e| e.0.clone()).collect::<Vec<_>>()),
                    ));
                    break;
                }
            }
        }
    }
    // executed once each, in order: the two database sets must have ended in the same state
    let h = dump_db(&dbs, "hdb").map(|d| live_view(&d));
    let r = dump_db(&dbs, "rdb").map(|d| live_view(&d));
    if h != r {
        out.violations.push(Violation::new(
            "executed-differently",
            if prog.websocket { "websocket" } else { "http" }.to_string(),
            format!("body {:?}: database after the request {:?}, after the same commands one by one {:?}", body, h, r),
        ));
    }
    let hn: Vec<String> = db_names(&dbs).into_iter().filter(|n| n.starts_with("hnew")).map(|n| n.replace("hnew", "")).collect();
    let rn: Vec<String> = db_names(&dbs).into_iter().filter(|n| n.starts_with("rnew")).map(|n| n.replace("rnew", "")).collect();
    if hn != rn {
        out.violations.push(Violation::new("executed-differently", "create-db".to_string(), format!("databases created by the request {:?}, by the reference {:?}", hn, rn)));
    }
    // the request's session is gone: no connection counted, no watcher left
    sleep_ms(5);
    let ran_use_db = prog.cmds.iter().any(|c| matches!(c, Cmd::UseDbOk | Cmd::UseDbUser | Cmd::UseDbSecond));
    for (dbname, two) in [("hdb", ""), ("hdb2", ":second-database")] {
        let map = dbs.map.read().unwrap();
        if let Some(db) = map.get(&dbname.to_string()) {
            let c = db.connections_count();
            if c != 0 {
                out.violations.push(Violation::new("session-not-released", format!("connections{}", two), format!("body {:?}: {} connections still counted on {} after the request ended", body, c, dbname)));
            }
            // ... and the published counter says the same (what other clients and watchers see)
            let published = db.get_value("$connections".to_string()).map(|v| v.value);
            if let Some(p) = published {
                if p.trim() != "0" && ran_use_db {
                    out.violations.push(Violation::new("session-not-released", format!("published-counter{}", two), format!("body {:?}: $connections of {} reads {:?} after the request ended", body, dbname, p)));
                }
            }
            let wm = db.watchers.map.read().unwrap();
            let left: usize = wm.values().map(|v| v.len()).sum();
            if left != 0 {
                out.violations.push(Violation::new("session-not-released", format!("watchers{}", if prog.cmds.iter().any(|c| matches!(c, Cmd::UseDbSecond)) { ":two-databases" } else { two }), format!("body {:?}: {} watcher registrations left in {}", body, left, dbname)));
            }
        }
    }
    out
}

/// Entries are joined with ';' but an entry may itself contain ';' or newlines; split greedily into
/// exactly n parts when possible (values in this check never contain ';').
fn split_entries(reply: &str, _n: usize) -> Vec<String> {
    reply.split(';').map(|s| s.to_string()).collect()
}

impl Property for C20 {
    fn id(&self) -> &'static str {
        "C20"
    }
    fn scenarios(&self) -> Vec<(&'static str, u32)> {
        vec![("http", 4), ("websocket", 1)]
    }
    fn budget(&self) -> (u64, u64) {
        (250_000, 5_000_000)
    }
    fn rule(&self) -> &'static str {
        "bodies of 1-6 statements from {auth ok/bad, use-db ok / bad token / user token with read-only k* permission, get, get-safe, set, set-safe fresh/stale, remove, increment ok/non-numeric, keys, watch (later writes of the same request notify its own session), create-db, blank}, over keys incl. a $$ key, with or without trailing ';' and spaces around ';' (in half of the cases after 1-4 HTTP requests of other clients against another database set, served by the same four workers), sent as one HTTP request to the real http_ops worker loop (tiny_http facade) or as one WebSocket frame; the reference is the same command list executed one command at a time by a fresh direct session on a mirrored database set: entry i must equal what command i alone produces (first message, error text, or 'empty'), the entry count must equal the number of non-blank statements, both database sets must end equal (executed once each, in order), and afterwards no connection or watcher of the request's session is left. Non-trivial: a refused command precedes a successful one. distinct = distinct programs."
    }
    fn assumptions(&self) -> Vec<String> {
        vec![
            "input/history dominated: the deciding power is seeded sequence generation with a differential oracle, hosted in the simulator so that the real HTTP/WS handler loops run".into(),
            "the CLI clause (exec prints the joined reply) is outside the simulator (reqwest); it is covered only in so far as the joined body is what the server returned".into(),
        ]
    }
    fn components(&self) -> Json {
        json!({"real": ["http_ops::process_commands + worker loop", "ws_ops on_message ';' splitting", "process_request"],
               "simulated": ["tiny_http / ws wire layers (facades)", "TCP"], "stub": []})
    }
    fn run_one(&self, scenario: &str, ctx: &RunCtx) -> RunReport {
        let mut rng = Rng::new(ctx.seed);
        let prog: Program = match &ctx.program {
            Some(p) => serde_json::from_value(p.clone()).expect("program"),
            None => gen(&mut rng, scenario == "websocket"),
        };
        let mut cfg = SimConfig::new(ctx.seed ^ 0xc20);
        cfg.policy = policy_for(Rng::new(ctx.seed ^ 0x9011c7).next_u64());
        cfg.trace = ctx.trace;
        let p2 = prog.clone();
        let outcome = run_sim(cfg, move || execute(p2));
        clear_registry();
        let mut rep = RunReport { seed: ctx.seed, scenario: scenario.to_string(), ..Default::default() };
        rep.program = serde_json::to_value(&prog).unwrap();
        rep.absorb_kernel(&outcome.kernel);
        if let Some(p) = outcome.harness_panic {
            rep.harness_error = Some(p);
            return rep;
        }
        let out = match outcome.result {
            Some(o) => o,
            None => {
                rep.discarded = Some("truncated".into());
                return rep;
            }
        };
        if let Err(e) = out.setup {
            rep.discarded = Some(e);
            return rep;
        }
        for p in outcome.kernel.panics.iter() {
            rep.violations.push(Violation::new("panic", p.location.rsplit('/').next().unwrap_or("?").to_string(), format!("{} at {}", p.message, p.location)));
        }
        rep.violations.extend(out.violations);
        rep.nontrivial = out.had_refusal_before_success;
        rep.case_hash = hash_str(&rep.program.to_string());
        let _ = kernel::MS;
        rep
    }
    fn shrink(&self, _scenario: &str, program: &Json) -> Vec<Json> {
        let p: Program = match serde_json::from_value(program.clone()) {
            Ok(p) => p,
            Err(_) => return vec![],
        };
        let mut out = Vec::new();
        if !p.earlier_requests.is_empty() {
            let mut q = p.clone();
            q.earlier_requests.clear();
            out.push(serde_json::to_value(&q).unwrap());
            for i in 0..p.earlier_requests.len() {
                let mut q = p.clone();
                q.earlier_requests.remove(i);
                out.push(serde_json::to_value(&q).unwrap());
                for j in 0..p.earlier_requests[i].len() {
                    if p.earlier_requests[i].len() > 1 {
                        let mut q = p.clone();
                        q.earlier_requests[i].remove(j);
                        out.push(serde_json::to_value(&q).unwrap());
                    }
                }
            }
        }
        for i in 0..p.cmds.len() {
            if p.cmds.len() > 1 {
                let mut q = p.clone();
                q.cmds.remove(i);
                out.push(serde_json::to_value(&q).unwrap());
            }
        }
        if p.trailing_semicolon || p.spaces {
            let mut q = p.clone();
            q.trailing_semicolon = false;
            q.spaces = false;
            out.push(serde_json::to_value(&q).unwrap());
        }
        out
    }
}
