#!/bin/bash
# tools/r4lane.sh <lane> <Cxx-mN> [checks...]   run checks against seeded/<id>/patch.diff in a lane (serialised per lane by a lock)
L=$1; ID=$2; shift 2
P=${ID%%-*}
CH="${*:-$P}"
mkdir -p /tmp/mut
flock /tmp/mut/lane$L.lock /verif/tools/mutlane.sh $L /verif/seeded/$ID/patch.diff quick $CH 2>&1 | sed "s/^/$ID /" >> ${R4RESULTS:-/tmp/r5/results.txt}
