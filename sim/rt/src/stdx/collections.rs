//! `std::collections` with a HashMap/HashSet whose iteration order is a function of the run seed.
pub use std::collections::{
    binary_heap, btree_map, btree_set, hash_map, hash_set, linked_list, vec_deque, BTreeMap, BTreeSet, BinaryHeap,
    LinkedList, TryReserveError, VecDeque,
};
use std::borrow::Borrow;
use std::hash::{BuildHasher, Hash, Hasher};
use std::ops::{Deref, DerefMut, Index};

#[derive(Clone, Copy, Debug)]
pub struct SeededState(u64);
impl SeededState {
    pub fn current() -> SeededState {
        SeededState(crate::kernel::try_with(|k| k.map_seed).unwrap_or(0x5eed))
    }
}
impl Default for SeededState {
    fn default() -> Self {
        SeededState::current()
    }
}
pub struct SeededHasher(u64);
impl Hasher for SeededHasher {
    fn finish(&self) -> u64 {
        let mut x = self.0;
        x = (x ^ (x >> 33)).wrapping_mul(0xff51afd7ed558ccd);
        x = (x ^ (x >> 33)).wrapping_mul(0xc4ceb9fe1a85ec53);
        x ^ (x >> 33)
    }
    fn write(&mut self, bytes: &[u8]) {
        for b in bytes {
            self.0 = (self.0 ^ (*b as u64)).wrapping_mul(0x100000001b3);
            self.0 = self.0.rotate_left(5);
        }
    }
    fn write_u64(&mut self, i: u64) {
        self.0 = (self.0 ^ i).wrapping_mul(0x9E3779B97F4A7C15).rotate_left(23);
    }
    fn write_usize(&mut self, i: usize) {
        self.write_u64(i as u64)
    }
    fn write_u32(&mut self, i: u32) {
        self.write_u64(i as u64)
    }
    fn write_u8(&mut self, i: u8) {
        self.write_u64(i as u64)
    }
}
impl BuildHasher for SeededState {
    type Hasher = SeededHasher;
    fn build_hasher(&self) -> SeededHasher {
        SeededHasher(self.0 ^ 0xcbf29ce484222325)
    }
}

type Inner<K, V> = std::collections::HashMap<K, V, SeededState>;

pub struct HashMap<K, V>(Inner<K, V>);

impl<K, V> HashMap<K, V> {
    pub fn new() -> Self {
        HashMap(Inner::with_hasher(SeededState::current()))
    }
    pub fn with_capacity(n: usize) -> Self {
        HashMap(Inner::with_capacity_and_hasher(n, SeededState::current()))
    }
}
impl<K, V> Default for HashMap<K, V> {
    fn default() -> Self {
        Self::new()
    }
}
impl<K, V> Deref for HashMap<K, V> {
    type Target = Inner<K, V>;
    fn deref(&self) -> &Inner<K, V> {
        &self.0
    }
}
impl<K, V> DerefMut for HashMap<K, V> {
    fn deref_mut(&mut self) -> &mut Inner<K, V> {
        &mut self.0
    }
}
impl<K: Clone, V: Clone> Clone for HashMap<K, V> {
    fn clone(&self) -> Self {
        HashMap(self.0.clone())
    }
}
impl<K: std::fmt::Debug, V: std::fmt::Debug> std::fmt::Debug for HashMap<K, V> {
    fn fmt(&self, f: &mut std::fmt::Formatter<'_>) -> std::fmt::Result {
        self.0.fmt(f)
    }
}
impl<K: Eq + Hash, V: PartialEq> PartialEq for HashMap<K, V> {
    fn eq(&self, o: &Self) -> bool {
        self.0 == o.0
    }
}
impl<K: Eq + Hash, V: Eq> Eq for HashMap<K, V> {}
impl<K, V> IntoIterator for HashMap<K, V> {
    type Item = (K, V);
    type IntoIter = std::collections::hash_map::IntoIter<K, V>;
    fn into_iter(self) -> Self::IntoIter {
        self.0.into_iter()
    }
}
impl<'a, K, V> IntoIterator for &'a HashMap<K, V> {
    type Item = (&'a K, &'a V);
    type IntoIter = std::collections::hash_map::Iter<'a, K, V>;
    fn into_iter(self) -> Self::IntoIter {
        self.0.iter()
    }
}
impl<'a, K, V> IntoIterator for &'a mut HashMap<K, V> {
    type Item = (&'a K, &'a mut V);
    type IntoIter = std::collections::hash_map::IterMut<'a, K, V>;
    fn into_iter(self) -> Self::IntoIter {
        self.0.iter_mut()
    }
}
impl<K: Eq + Hash, V> FromIterator<(K, V)> for HashMap<K, V> {
    fn from_iter<T: IntoIterator<Item = (K, V)>>(iter: T) -> Self {
        let mut m = HashMap::new();
        for (k, v) in iter {
            m.0.insert(k, v);
        }
        m
    }
}
impl<K: Eq + Hash, V> Extend<(K, V)> for HashMap<K, V> {
    fn extend<T: IntoIterator<Item = (K, V)>>(&mut self, iter: T) {
        self.0.extend(iter)
    }
}
impl<K, Q: ?Sized, V> Index<&Q> for HashMap<K, V>
where
    K: Eq + Hash + Borrow<Q>,
    Q: Eq + Hash,
{
    type Output = V;
    fn index(&self, key: &Q) -> &V {
        self.0.get(key).expect("no entry found for key")
    }
}
impl<K: serde::Serialize, V: serde::Serialize> serde::Serialize for HashMap<K, V> {
    fn serialize<S: serde::Serializer>(&self, s: S) -> Result<S::Ok, S::Error> {
        self.0.serialize(s)
    }
}
impl<'de, K: serde::Deserialize<'de> + Eq + Hash, V: serde::Deserialize<'de>> serde::Deserialize<'de> for HashMap<K, V> {
    fn deserialize<D: serde::Deserializer<'de>>(d: D) -> Result<Self, D::Error> {
        let m: Inner<K, V> = Inner::deserialize(d)?;
        Ok(HashMap(m))
    }
}

type InnerSet<T> = std::collections::HashSet<T, SeededState>;
pub struct HashSet<T>(InnerSet<T>);
impl<T> HashSet<T> {
    pub fn new() -> Self {
        HashSet(InnerSet::with_hasher(SeededState::current()))
    }
}
impl<T> Default for HashSet<T> {
    fn default() -> Self {
        Self::new()
    }
}
impl<T> Deref for HashSet<T> {
    type Target = InnerSet<T>;
    fn deref(&self) -> &InnerSet<T> {
        &self.0
    }
}
impl<T> DerefMut for HashSet<T> {
    fn deref_mut(&mut self) -> &mut InnerSet<T> {
        &mut self.0
    }
}
impl<T: Clone> Clone for HashSet<T> {
    fn clone(&self) -> Self {
        HashSet(self.0.clone())
    }
}
impl<T: Eq + Hash> FromIterator<T> for HashSet<T> {
    fn from_iter<I: IntoIterator<Item = T>>(iter: I) -> Self {
        let mut m = HashSet::new();
        for v in iter {
            m.0.insert(v);
        }
        m
    }
}
impl<T> IntoIterator for HashSet<T> {
    type Item = T;
    type IntoIter = std::collections::hash_set::IntoIter<T>;
    fn into_iter(self) -> Self::IntoIter {
        self.0.into_iter()
    }
}
impl<'a, T> IntoIterator for &'a HashSet<T> {
    type Item = &'a T;
    type IntoIter = std::collections::hash_set::Iter<'a, T>;
    fn into_iter(self) -> Self::IntoIter {
        self.0.iter()
    }
}
