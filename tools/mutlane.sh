#!/bin/bash
# Development tool: run checks against a patched scratch worktree of /repo in an isolated "lane"
# (own copy of /verif/sim, own gen/, own target dir, own evidence/replays) so that several seeded
# changes can be evaluated in parallel without touching /repo or /verif.
#   tools/mutlane.sh <lane> <patch.diff|-> <tier> <Cxx> [Cxx...]      ("-" = unpatched tree)
# Prints one line per check:  <Cxx> exit=<code> viol=<n> known=<n> first=<first VIOLATION clause>
set -u
LANE=$1; PATCH=$2; TIER=$3; shift 3
L=/tmp/mut/lane$LANE
mkdir -p $L/verif
if [ ! -d $L/wt ]; then git -C /repo worktree add --detach $L/wt HEAD >/dev/null 2>&1 || exit 2; fi
git -C $L/wt checkout -q -- . ; git -C $L/wt clean -fdq
git -C $L/wt checkout -q --detach $(git -C /repo rev-parse HEAD) || { echo "CHECKOUT-FAILED"; exit 2; }
[ "$(git -C $L/wt rev-parse HEAD)" = "$(git -C /repo rev-parse HEAD)" ] || { echo "CHECKOUT-FAILED"; exit 2; }
if [ "$PATCH" != "-" ]; then git -C $L/wt apply "$PATCH" || { echo "PATCH-FAILED $PATCH"; exit 2; }; fi
rsync -a --delete --exclude target --exclude gen --exclude target-build.log /verif/sim/ $L/verif/sim/
if [ ! -d $L/target ]; then
  cp -a /verif/sim/target $L/target
  # the copied dep-info names /verif/sim/gen/... by absolute path: force one rebuild of the crates
  # compiled from the generated sources so that this lane tracks its own gen/
  rm -rf $L/target/release/.fingerprint/nun-db-* $L/target/release/.fingerprint/nunsim-*
fi
cp /verif/known_findings.json $L/verif/known_findings.json
cp /verif/properties.jsonl $L/verif/ 2>/dev/null
export CARGO_NET_OFFLINE=true CARGO_TARGET_DIR=$L/target NUNDB_REPO_SRC=$L/wt/src NUNSIM_VERIF_DIR=$L/verif
cd $L/verif/sim || exit 2
./gen-src || { echo "GEN-SRC-FAILED"; exit 2; }
if ! cargo build --release --offline -p nunsim > $L/build.log 2>&1; then echo "BUILD-FAILED (see $L/build.log)"; tail -20 $L/build.log; exit 2; fi
for id in "$@"; do
  out=$L/$id.log
  timeout 3000 $L/target/release/nunsim run $id $TIER > $out 2>&1
  code=$?
  first=$(grep -m1 -A1 '^VIOLATION' $out | tail -1 | cut -c1-150)
  echo "$id exit=$code viol=$(grep -c '^VIOLATION' $out) known=$(grep -c '^KNOWN-FINDING' $out) first=$first"
done
