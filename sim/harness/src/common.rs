//! Types shared by all property scenarios and the batch driver.
use nundb_verif_rt::kernel::{mix, Kernel, Policy};
use serde::{Deserialize, Serialize};
use serde_json::Value as Json;
use std::collections::BTreeMap;

#[derive(Clone, Copy, Debug, PartialEq, Serialize, Deserialize)]
pub enum Tier {
    Quick,
    Thorough,
}

#[derive(Clone, Debug, Serialize, Deserialize, PartialEq)]
pub struct Violation {
    pub clause: String,
    pub shape: String,
    pub message: String,
}

impl Violation {
    pub fn new(clause: &str, shape: impl Into<String>, message: impl Into<String>) -> Violation {
        Violation { clause: clause.to_string(), shape: shape.into(), message: message.into() }
    }
    pub fn sig(&self) -> String {
        format!("{}/{}", self.clause, self.shape)
    }
}

/// Result of one simulated run.
#[derive(Clone, Debug, Serialize, Deserialize, Default)]
pub struct RunReport {
    pub seed: u64,
    pub scenario: String,
    pub violations: Vec<Violation>,
    /// the run reached the property's interesting region (rule stated per property)
    pub nontrivial: bool,
    /// hash identifying the case (program shape x interleaving) for distinct counting
    pub case_hash: u64,
    pub steps: u64,
    pub switches: u64,
    pub sim_ms: u64,
    pub truncated: bool,
    pub discarded: Option<String>,
    pub harness_error: Option<String>,
    pub faults: BTreeMap<String, u64>,
    pub probes: BTreeMap<String, u64>,
    pub counters: BTreeMap<String, u64>,
    pub program: Json,
    pub event_hash: u64,
    pub trace: Vec<String>,
}

impl RunReport {
    pub fn absorb_kernel(&mut self, k: &Kernel) {
        self.steps = k.stats.steps;
        self.switches = k.stats.switches;
        self.sim_ms = (k.now - nundb_verif_rt::kernel::EPOCH_BASE_NS) / 1_000_000;
        self.truncated = k.truncated;
        self.faults = k.stats.faults.clone();
        if k.net.segments_split > 0 {
            self.faults.insert("tcp_segment_split".into(), k.net.segments_split);
        }
        self.probes = k.stats.probes.clone();
        self.event_hash = k.hash;
        for p in k.panics.iter() {
            *self.counters.entry("node_task_panics".into()).or_insert(0) += 1;
            let _ = p;
        }
        self.counters.insert("tasks_spawned".into(), k.stats.tasks_spawned);
        self.counters.insert("disk_mutations".into(), k.stats.disk_mutations);
        self.counters.insert("net_bytes".into(), k.stats.bytes_sent);
        self.counters.insert("net_max_backlog".into(), k.net.max_backlog as u64);
        if let Some(t) = k.trace.as_ref() {
            self.trace = t.clone();
        }
    }
}

pub fn hash_str(s: &str) -> u64 {
    let mut h = 0xcbf29ce484222325u64;
    for b in s.as_bytes() {
        h = (h ^ *b as u64).wrapping_mul(0x100000001b3);
    }
    mix(h, s.len() as u64)
}

pub fn policy_for(seed: u64) -> Policy {
    match seed % 6 {
        0 => Policy::Random,
        1 => Policy::Sticky(128),
        2 => Policy::Sticky(224),
        3 => Policy::Pct { changes: 3, horizon: 2000 },
        4 => Policy::Stall { p: 4, max: 400 },
        _ => Policy::Stall { p: 16, max: 60 },
    }
}

pub fn policy_name(p: Policy) -> String {
    match p {
        Policy::Random => "random".into(),
        Policy::Sticky(x) => format!("sticky({}/256)", x),
        Policy::Pct { changes, horizon } => format!("pct(d={},h={})", changes, horizon),
        Policy::Stall { p, max } => format!("stall({}/256,{} steps)", p, max),
    }
}

/// Context handed to a scenario execution.
#[derive(Clone, Debug)]
pub struct RunCtx {
    pub seed: u64,
    pub tier: Tier,
    pub trace: bool,
    /// when replaying / minimising: the program to execute instead of generating one
    pub program: Option<Json>,
}

pub trait Property: Sync {
    fn id(&self) -> &'static str;
    /// names of sub-scenarios; the driver spreads runs over them by weight
    fn scenarios(&self) -> Vec<(&'static str, u32)>;
    fn run_one(&self, scenario: &str, ctx: &RunCtx) -> RunReport;
    /// (quick, thorough) number of runs
    fn budget(&self) -> (u64, u64);
    /// candidate smaller programs for minimisation
    fn shrink(&self, _scenario: &str, _program: &Json) -> Vec<Json> {
        Vec::new()
    }
    fn level(&self) -> &'static str {
        "exploration"
    }
    fn rule(&self) -> &'static str;
    fn assumptions(&self) -> Vec<String> {
        Vec::new()
    }
    /// environment knobs for worker `w` (process-global lazy_statics of nun-db)
    fn worker_env(&self, _w: u64, _master: u64) -> Vec<(String, String)> {
        Vec::new()
    }
    fn components(&self) -> Json {
        serde_json::json!({})
    }
}

pub fn seed_for(master: u64, prop: &str, worker: u64, i: u64) -> u64 {
    let mut h = mix(master ^ 0x6e756e73696d, hash_str(prop));
    h = mix(h, worker);
    h = mix(h, i);
    h
}

/// Where a process abort would be attributed if it happened now (read by the supervising driver
/// when a worker dies): written before phases in which nun-db may abort the process (e.g. an
/// absurd allocation while loading corrupted files), cleared afterwards.
pub fn set_abort_context(ctx: &str) {
    use std::os::unix::fs::FileExt;
    thread_local! {
        static F: std::cell::RefCell<Option<std::fs::File>> = std::cell::RefCell::new(None);
    }
    let path = match std::env::var("NUNSIM_ABORT_CTX_FILE") {
        Ok(p) => p,
        Err(_) => return,
    };
    F.with(|f| {
        let mut f = f.borrow_mut();
        if f.is_none() {
            *f = std::fs::OpenOptions::new().create(true).write(true).open(&path).ok();
        }
        if let Some(file) = f.as_ref() {
            let b = ctx.as_bytes();
            let n = b.len().min(200);
            let mut buf = vec![0u8; 204];
            buf[..4].copy_from_slice(&(n as u32).to_le_bytes());
            buf[4..4 + n].copy_from_slice(&b[..n]);
            let _ = file.write_at(&buf, 0);
        }
    });
}

pub fn read_abort_context(path: &str) -> Option<String> {
    let b = std::fs::read(path).ok()?;
    if b.len() < 4 {
        return None;
    }
    let n = u32::from_le_bytes([b[0], b[1], b[2], b[3]]) as usize;
    if n == 0 || b.len() < 4 + n {
        return None;
    }
    Some(String::from_utf8_lossy(&b[4..4 + n]).to_string())
}
