//! C04 -- live replication converges: every node ends equal to the primary.
use crate::common::*;
use crate::kv::*;
use crate::world::*;
use nundb::bo::Databases;
use nundb_verif_rt::kernel::{self, with, Rng};
use nundb_verif_rt::sim::{run_sim, SimConfig};
use nundb_verif_rt::stdx::sync::Arc;
use serde::{Deserialize, Serialize};
use serde_json::{json, Value as Json};
use std::collections::BTreeMap;

pub struct C04;

#[derive(Clone, Debug, Serialize, Deserialize, PartialEq)]
pub enum Op {
    Set { key: String, val: String },
    SetSafe { key: String, delta: i32, val: String },
    Remove { key: String },
    Inc { key: String, by: i32 },
    CreateDb { name: String, strategy: String },
    CreateUser { user: String },
    SetPermissions { user: String, perms: String },
    Snapshot { reclaim: bool },
}

impl Op {
    pub fn kind(&self) -> &'static str {
        match self {
            Op::Set { .. } => "set",
            Op::SetSafe { .. } => "set-safe",
            Op::Remove { .. } => "remove",
            Op::Inc { .. } => "increment",
            Op::CreateDb { .. } => "create-db",
            Op::CreateUser { .. } => "create-user",
            Op::SetPermissions { .. } => "set-permissions",
            Op::Snapshot { .. } => "snapshot",
        }
    }
    fn key(&self) -> String {
        match self {
            Op::Set { key, .. } | Op::SetSafe { key, .. } | Op::Remove { key } | Op::Inc { key, .. } => key.clone(),
            Op::CreateUser { user } => format!("$$user_{}", user),
            Op::SetPermissions { user, .. } => format!("$$permission_${}", user),
            _ => String::new(),
        }
    }
}

#[derive(Clone, Debug, Serialize, Deserialize)]
pub struct Program {
    pub nodes: usize,
    /// (node index in boot order, op); node 0 is the oldest = the primary
    pub ops: Vec<(usize, Op)>,
    /// wait for quiescence after every operation (purely sequential) or only at the end
    pub settle_each: bool,
    /// second client on the primary running these ops concurrently with `ops`
    pub concurrent_on_primary: Vec<Op>,
    pub latency_us: (u64, u64),
    /// conflict strategy of the working database (none or newer)
    #[serde(default = "default_strategy")]
    pub strategy: String,
    /// a quarter of the writes on the links between the nodes arrive as two TCP segments (the byte stream is cut
    /// anywhere; the second part follows up to 2 ms later)
    #[serde(default)]
    pub segments: bool,
}

fn default_strategy() -> String {
    "none".to_string()
}

const KEYS: [&str; 3] = ["ka", "kb", "n"];

/// one value in five is not a plain word: blanks, tabs or a carriage return at its end, a blank in front, several
/// words -- the replicas must hold the very bytes the primary holds
fn odd_value(rng: &mut Rng, base: String) -> String {
    if !rng.chance(1, 5) {
        return base;
    }
    match rng.below(7) {
        0 => format!("{}  ", base),
        1 => format!("{}\t", base),
        2 => format!("{}\r", base),
        3 => format!(" {}", base),
        4 => format!("{} and  more words ", base),
        5 => format!("7 {}", base),
        _ => format!("<Empty> {}", base),
    }
}

fn gen_op(rng: &mut Rng, uniq: &mut u32, allow_setsafe: bool) -> Op {
    let key = KEYS[rng.below(3) as usize].to_string();
    *uniq += 1;
    match rng.below(16) {
        0..=4 => Op::Set { key, val: if rng.chance(1, 4) { format!("{}", rng.range(0, 30)) } else { odd_value(rng, format!("v{}", uniq)) } },
        5 | 6 => {
            if allow_setsafe {
                Op::SetSafe { key, delta: rng.range(0, 2) as i32 - 1, val: odd_value(rng, format!("s{}", uniq)) }
            } else {
                Op::Set { key, val: odd_value(rng, format!("v{}", uniq)) }
            }
        }
        7 | 8 => Op::Remove { key },
        9 | 10 => Op::Inc { key: "n".to_string(), by: rng.range(1, 4) as i32 },
        11 => Op::CreateDb { name: format!("x{}", rng.range(1, 2)), strategy: ["none", "newer", "arbiter"][rng.below(3) as usize].to_string() },
        12 => Op::CreateUser { user: format!("u{}", rng.range(1, 2)) },
        13 => Op::SetPermissions { user: format!("u{}", rng.range(1, 2)), perms: ["r *", "rw k*", "rwix *|r n"][rng.below(3) as usize].to_string() },
        _ => Op::Snapshot { reclaim: rng.chance(1, 3) },
    }
}

fn gen(rng: &mut Rng, concurrent: bool) -> Program {
    let nodes = rng.range(2, 3) as usize;
    let n = rng.range(1, 8) as usize;
    let settle_each = !concurrent && rng.chance(2, 3);
    let mut uniq = 0;
    let mut ops = Vec::new();
    for _ in 0..n {
        let node = if concurrent { 0 } else { rng.below(nodes as u64) as usize };
        // versioned writes from different nodes racing on one key are the statement's exception:
        // only generate set-safe where no race between nodes is possible
        let allow = settle_each || concurrent;
        ops.push((node, gen_op(rng, &mut uniq, allow)));
    }
    let mut conc = Vec::new();
    if concurrent {
        let m = rng.range(1, 5) as usize;
        for _ in 0..m {
            conc.push(gen_op(rng, &mut uniq, false));
        }
    }
    let latency_us = if rng.chance(1, 2) { (0, 0) } else { (rng.range(50, 500), rng.range(500, 20_000)) };
    let strategy = if rng.chance(1, 3) { "newer" } else { "none" }.to_string();
    let segments = rng.chance(1, 3);
    Program { nodes, ops, settle_each, concurrent_on_primary: conc, latency_us, strategy, segments }
}

pub type NodeDump = BTreeMap<String, (String, BTreeMap<String, Entry>)>;

pub fn dump_node(dbs: &Arc<Databases>) -> NodeDump {
    let mut out = BTreeMap::new();
    for name in db_names(dbs) {
        let strat = db_meta(dbs, &name).map(|m| m.1).unwrap_or_default();
        if let Some(d) = dump_db(dbs, &name) {
            out.insert(name, (strat, d));
        }
    }
    out
}

/// First difference between a node and the primary, as (field, database, key, description).
pub fn diff_nodes(primary: &NodeDump, other: &NodeDump) -> Option<(String, String, String, String)> {
    for (db, (strat, keys)) in primary.iter() {
        let (ostrat, okeys) = match other.get(db) {
            Some(x) => x,
            None => return Some(("missing-database".into(), db.clone(), String::new(), format!("database {} exists on the primary only", db))),
        };
        if strat != ostrat {
            return Some(("strategy".into(), db.clone(), String::new(), format!("database {}: strategy {} on the primary, {} here", db, strat, ostrat)));
        }
        let mut all: Vec<&String> = keys.keys().chain(okeys.keys()).collect();
        all.sort();
        all.dedup();
        for k in all {
            if k == "$connections" {
                continue;
            }
            let a = keys.get(k).filter(|e| !e.deleted);
            let b = okeys.get(k).filter(|e| !e.deleted);
            match (a, b) {
                (None, None) => {}
                (Some(a), None) => return Some(("liveness".into(), db.clone(), k.clone(), format!("{}/{}: live on the primary ({:?} v{}), removed/absent here", db, k, a.value, a.version))),
                (None, Some(b)) => return Some(("liveness".into(), db.clone(), k.clone(), format!("{}/{}: removed/absent on the primary, live here ({:?} v{})", db, k, b.value, b.version))),
                (Some(a), Some(b)) => {
                    if a.value != b.value {
                        return Some(("value".into(), db.clone(), k.clone(), format!("{}/{}: primary {:?} v{}, here {:?} v{}", db, k, a.value, a.version, b.value, b.version)));
                    }
                    if a.version != b.version {
                        return Some(("version".into(), db.clone(), k.clone(), format!("{}/{}: value {:?} at version {} on the primary, version {} here", db, k, a.value, a.version, b.version)));
                    }
                }
            }
        }
    }
    for db in other.keys() {
        if !primary.contains_key(db) {
            return Some(("extra-database".into(), db.clone(), String::new(), format!("database {} exists here but not on the primary", db)));
        }
    }
    None
}

struct Outcome {
    setup: Result<(), String>,
    violations: Vec<Violation>,
    ops_applied: u64,
    ops_at_secondary: u64,
}

fn line_for(op: &Op, s: &mut Session) -> String {
    match op {
        Op::Set { key, val } => format!("set {} {}", key, val),
        Op::SetSafe { key, delta, val } => {
            let cur = parse_value_version(&s.exec(&format!("get-safe {}", key)).msgs).map(|x| x.0).unwrap_or(0);
            format!("set-safe {} {} {}", key, cur + delta, val)
        }
        Op::Remove { key } => format!("remove {}", key),
        Op::Inc { key, by } => format!("increment {} {}", key, by),
        Op::CreateDb { name, strategy } => format!("create-db {} tk {}", name, strategy),
        Op::CreateUser { user } => format!("create-user {} pw", user),
        Op::SetPermissions { user, perms } => format!("set-permissions {} {}", user, perms),
        Op::Snapshot { reclaim } => format!("snapshot {}", reclaim),
    }
}

fn execute(prog: Program) -> Outcome {
    let mut out = Outcome { setup: Err("not formed".into()), violations: vec![], ops_applied: 0, ops_at_secondary: 0 };
    let w = World::new(prog.nodes);
    with(|k| {
        k.net.latency = ((prog.latency_us.0 * 1000).max(50_000), (prog.latency_us.1 * 1000).max(50_000));
        if prog.latency_us.1 > 0 {
            k.fault("link_latency");
        }
        if prog.segments {
            k.net.segment_p = 64;
            k.net.segment_scope = 1;
        }
    });
    let primary = match w.form_cluster(1_300, 15_000) {
        Some(p) => p,
        None => {
            out.setup = Err("setup_unstable".into());
            return out;
        }
    };
    if primary != 0 {
        out.setup = Err("setup_unstable".into());
        return out;
    }
    let dbs: Vec<Arc<Databases>> = match (0..prog.nodes).map(|i| w.dbs(i)).collect::<Option<Vec<_>>>() {
        Some(d) => d,
        None => return out,
    };
    // a database to work on, created on the primary and replicated
    let mut padmin = Session::admin(&dbs[0]);
    if padmin.exec(&format!("create-db d tok {}", prog.strategy)).resp.is_err() {
        return out;
    }
    if !w.settle(200, 5_000) {
        out.setup = Err("setup_unstable".into());
        return out;
    }
    let mut sessions: Vec<Session> = Vec::new();
    for i in 0..prog.nodes {
        let mut s = Session::admin(&dbs[i]);
        if s.exec("use-db d tok").resp.is_err() {
            out.setup = Err("setup_unstable".into());
            return out;
        }
        sessions.push(s);
    }
    out.setup = Ok(());
    // every (kind, role) that touched each key (for the violation shape)
    let mut last: BTreeMap<String, Vec<(String, String)>> = BTreeMap::new();
    // which nodes' clients touched each key
    let mut origin_nodes: BTreeMap<String, std::collections::BTreeSet<usize>> = BTreeMap::new();
    let conc_handle = if !prog.concurrent_on_primary.is_empty() {
        let d0 = dbs[0].clone();
        let ops = prog.concurrent_on_primary.clone();
        Some(spawn_on_node(&w, 0, "client2", move || {
            let mut s = Session::admin(&d0);
            s.exec("use-db d tok");
            for op in ops {
                let line = line_for(&op, &mut s);
                s.exec(&line);
            }
        }))
    } else {
        None
    };
    for op in prog.concurrent_on_primary.iter() {
        last.entry(op.key()).or_default().push((op.kind().to_string(), "primary".to_string()));
        origin_nodes.entry(op.key()).or_default().insert(0);
    }
    for (node, op) in prog.ops.iter() {
        let node = (*node).min(prog.nodes - 1);
        let line = line_for(op, &mut sessions[node]);
        let r = sessions[node].exec(&line);
        if matches!(op, Op::Snapshot { .. }) {
            // the request is replicated; let every node's snapshot thread run it now (it races with the
            // operations that follow unless the history waits for quiescence after each one)
            sleep_ms(1);
            for i in 0..prog.nodes {
                w.declutter_kick(i);
            }
        }
        out.ops_applied += 1;
        if node != 0 {
            out.ops_at_secondary += 1;
        }
        let role = if node == 0 { "primary" } else { "secondary" };
        if !r.resp.is_err() || matches!(op, Op::SetSafe { .. }) {
            last.entry(op.key()).or_default().push((op.kind().to_string(), role.to_string()));
            origin_nodes.entry(op.key()).or_default().insert(node);
            if let Op::CreateDb { name, .. } = op {
                last.entry(format!("db:{}", name)).or_default().push(("create-db".into(), role.into()));
            }
        }
        if prog.settle_each {
            if !w.settle(150, 6_000) {
                out.violations.push(Violation::new("no-quiescence", format!("{}@{}", op.kind(), role), format!("the cluster keeps exchanging messages 6 s after `{}` on a {}", line, role)));
                return out;
            }
        }
    }
    if let Some(h) = conc_handle {
        let _ = h.join();
    }
    if !w.settle(300, 10_000) {
        out.violations.push(Violation::new("no-quiescence", "end".to_string(), "the cluster keeps exchanging messages 10 s after the last operation".to_string()));
        return out;
    }
    // compare
    let pd = dump_node(&dbs[0]);
    for i in 1..prog.nodes {
        let od = dump_node(&dbs[i]);
        if let Some((field, db, key, desc)) = diff_nodes(&pd, &od) {
            let touched = last.get(&key).or_else(|| last.get(&format!("db:{}", db))).cloned().unwrap_or_default();
            let mut sec: Vec<String> = touched.iter().filter(|t| t.1 == "secondary").map(|t| t.0.clone()).collect();
            let mut pri: Vec<String> = touched.iter().filter(|t| t.1 == "primary").map(|t| t.0.clone()).collect();
            sec.sort();
            sec.dedup();
            pri.sort();
            pri.dedup();
            let mode = if !prog.concurrent_on_primary.is_empty() {
                "two-clients"
            } else if prog.settle_each {
                "sequential"
            } else {
                "back-to-back"
            };
            // witness class: which kinds of operations touched the diverged key and where. Writes that
            // replace the value (set-like) are told apart from the ones that commute (increment).
            let set_like = |v: &Vec<String>| v.iter().any(|k| matches!(k.as_str(), "set" | "set-safe" | "create-user" | "set-permissions" | "create-db"));
            // a remove of a key behaves differently on a node that has persisted the key (it leaves a
            // tombstone that keeps the version) and on one that has not (the key is dropped and starts
            // again at version 0): flagged (for version differences only) when the history contains a snapshot and a remove of the key
            let snapshot_before_remove = field == "version"
                && prog.ops.iter().any(|(_, o)| matches!(o, Op::Snapshot { .. }))
                && (prog.ops.iter().map(|(_, o)| o).chain(prog.concurrent_on_primary.iter())).any(|o| matches!(o, Op::Remove { key: k } if *k == key));
            // operations on one key issued on different nodes without waiting for quiescence in between:
            // nothing orders them, every node applies its own client's operation first
            let cross_node_race = !prog.settle_each && origin_nodes.get(&key).map(|s| s.len() > 1).unwrap_or(false);
            // a node on which no client touched the key (and that is not the primary) only ever applies what the primary
            // sends it, in the primary's order: when every operation was followed by quiescence it has no excuse to differ
            let bystander = prog.settle_each && !origin_nodes.get(&key).map(|s| s.contains(&i)).unwrap_or(false) && !key.is_empty();
            let shape = if bystander && !snapshot_before_remove {
                let mut all: Vec<String> = sec.iter().chain(pri.iter()).cloned().collect();
                all.sort();
                all.dedup();
                format!("bystander-differs:{}:{}", mode, all.join("+"))
            } else if cross_node_race && !snapshot_before_remove {
                let mut all: Vec<String> = sec.iter().chain(pri.iter()).cloned().collect();
                all.sort();
                all.dedup();
                format!("cross-node-race:{}:{}", mode, all.join("+"))
            } else if snapshot_before_remove {
                let mut all: Vec<String> = sec.iter().chain(pri.iter()).cloned().collect();
                all.sort();
                all.dedup();
                format!("{}:remove-after-snapshot:{}:{}", if sec.is_empty() { "primary-origin-only" } else { "secondary-origin" }, mode, all.join("+"))
            } else if sec.is_empty() {
                if mode == "two-clients" && (set_like(&pri) || pri.iter().any(|k| k == "remove")) {
                    format!("primary-origin-only:two-clients:non-commuting:{}", pri.join("+"))
                } else {
                    format!("primary-origin-only:{}:{}", mode, pri.join("+"))
                }
            } else if set_like(&sec) {
                format!("secondary-origin:writes-incl-set:{}:{}", mode, sec.join("+"))
            } else if sec.iter().any(|k| k == "remove") && sec.len() > 1 && !prog.settle_each {
                // a remove issued on a secondary is applied there at once and forwarded, an increment is
                // only forwarded and comes back later: issued back to back they apply in different orders
                // on the origin and on the primary (same family as the set-on-a-secondary finding)
                format!("secondary-origin:local-remove-vs-forwarded:{}:{}", mode, sec.join("+"))
            } else {
                format!("secondary-origin:{}:{}", mode, sec.join("+"))
            };
            out.violations.push(Violation::new(
                &format!("diverged-{}", field),
                shape,
                format!("node n{} differs from the primary at quiescence: {} (operations on it: {:?})", i + 1, desc, touched),
            ));
        }
    }
    out
}

impl Property for C04 {
    fn id(&self) -> &'static str {
        "C04"
    }
    fn scenarios(&self) -> Vec<(&'static str, u32)> {
        vec![("any-node", 3), ("two-clients-on-primary", 1)]
    }
    fn budget(&self) -> (u64, u64) {
        (10_000, 300_000)
    }
    fn rule(&self) -> &'static str {
        "clusters of 2-3 real nodes formed through the real join/election protocol (booted 1.3 s apart), link latency 50 us or 50 us - 20 ms with jitter, 1-8 operations of {set,set-safe,remove,increment,create-db (3 strategies),create-user,set-permissions,snapshot} issued by administrator sessions at arbitrary nodes, either waiting for quiescence after each or back to back (then without set-safe), or from two concurrent clients on the primary; at quiescence the white-box dump (databases, strategy, per key value / removed-or-live / version, $connections ignored) of every node must equal the primary's. Runs whose cluster did not form with the oldest node as primary are discarded (setup_unstable; elections are C07's subject). Non-trivial: at least one operation was issued on a secondary or two clients overlapped. distinct = distinct (program, task-switch sequence)."
    }
    fn assumptions(&self) -> Vec<String> {
        vec!["a tombstone and an absent key are the same 'removed'; versions are compared for live keys only; oplog contents and ids are not compared".into()]
    }
    fn components(&self) -> Json {
        json!({"real": ["process_request (apply + forward to primary)", "replicate_request", "replication loop fan-out", "start_replication links", "rp/ack handling", "election/join (bring-up)"],
               "simulated": ["TCP (FIFO, latency/jitter)", "clock", "threads"], "stub": []})
    }
    fn run_one(&self, scenario: &str, ctx: &RunCtx) -> RunReport {
        let mut rng = Rng::new(ctx.seed);
        let prog: Program = match &ctx.program {
            Some(p) => serde_json::from_value(p.clone()).expect("program"),
            None => gen(&mut rng, scenario == "two-clients-on-primary"),
        };
        let mut cfg = SimConfig::new(ctx.seed ^ 0xc04);
        cfg.policy = policy_for(Rng::new(ctx.seed ^ 0x9011c7).next_u64());
        cfg.trace = ctx.trace;
        cfg.max_steps = 6_000_000;
        let p2 = prog.clone();
        let outcome = run_sim(cfg, move || execute(p2));
        clear_registry();
        let mut rep = RunReport { seed: ctx.seed, scenario: scenario.to_string(), ..Default::default() };
        rep.program = serde_json::to_value(&prog).unwrap();
        rep.absorb_kernel(&outcome.kernel);
        if let Some(p) = outcome.harness_panic {
            rep.harness_error = Some(p);
            return rep;
        }
        let out = match outcome.result {
            Some(o) => o,
            None => {
                rep.discarded = Some("truncated".into());
                return rep;
            }
        };
        if let Err(e) = out.setup {
            rep.discarded = Some(e);
            return rep;
        }
        for p in outcome.kernel.panics.iter() {
            rep.violations.push(Violation::new("panic", p.location.rsplit('/').next().unwrap_or("?").to_string(), format!("{} at {}", p.message, p.location)));
        }
        rep.violations.extend(out.violations);
        rep.nontrivial = out.ops_at_secondary > 0 || !prog.concurrent_on_primary.is_empty();
        rep.counters.insert("ops".into(), out.ops_applied);
        rep.counters.insert("ops_at_secondary".into(), out.ops_at_secondary);
        rep.case_hash = kernel::mix(hash_str(&rep.program.to_string()), outcome.kernel.switch_hash);
        rep
    }
    fn shrink(&self, _scenario: &str, program: &Json) -> Vec<Json> {
        let p: Program = match serde_json::from_value(program.clone()) {
            Ok(p) => p,
            Err(_) => return vec![],
        };
        let mut out = Vec::new();
        for i in 0..p.ops.len() {
            let mut q = p.clone();
            q.ops.remove(i);
            out.push(serde_json::to_value(&q).unwrap());
        }
        for i in 0..p.concurrent_on_primary.len() {
            let mut q = p.clone();
            q.concurrent_on_primary.remove(i);
            out.push(serde_json::to_value(&q).unwrap());
        }
        if p.nodes == 3 && p.ops.iter().all(|(n, _)| *n < 2) {
            let mut q = p.clone();
            q.nodes = 2;
            out.push(serde_json::to_value(&q).unwrap());
        }
        if p.latency_us != (0, 0) {
            let mut q = p.clone();
            q.latency_us = (0, 0);
            out.push(serde_json::to_value(&q).unwrap());
        }
        out
    }
}
