//! Length-prefixed framing used on the simulated wire by the WebSocket and HTTP facades (the real
//! protocols' byte formats are not what nun-db implements; its handlers see whole messages).
use crate::kernel::{self, with, Wait};

pub const CLOSE_MARK: u32 = 0xFFFF_FFFF;
/// stands for a frame the protocol layer rejects (unmasked / oversized / invalid UTF-8 ...)
pub const BROKEN_MARK: u32 = 0xFFFF_FFFE;

pub fn write_frame(ep: usize, payload: &[u8]) -> Result<(), ()> {
    let mut v = Vec::with_capacity(payload.len() + 4);
    v.extend_from_slice(&(payload.len() as u32).to_be_bytes());
    v.extend_from_slice(payload);
    write_all(ep, &v)
}

pub fn write_close(ep: usize) -> Result<(), ()> {
    write_all(ep, &CLOSE_MARK.to_be_bytes())
}

pub fn write_broken(ep: usize) -> Result<(), ()> {
    write_all(ep, &BROKEN_MARK.to_be_bytes())
}

pub fn write_all(ep: usize, v: &[u8]) -> Result<(), ()> {
    with(|k| {
        let now = k.now;
        k.stats.bytes_sent += v.len() as u64;
        let mut rng = k.rng;
        let r = k.net.write(ep, v, now, &mut rng);
        k.rng = rng;
        r.map(|_| ())
    })
}

/// Pull whatever is deliverable into `buf`; returns false on EOF.
pub fn pump(ep: usize, buf: &mut Vec<u8>) -> bool {
    let mut tmp = [0u8; 4096];
    loop {
        let r = with(|k| {
            let now = k.now;
            k.net.read(ep, &mut tmp, now)
        });
        match r {
            Some(0) => return false,
            Some(n) => buf.extend_from_slice(&tmp[..n]),
            None => return true,
        }
    }
}

pub enum Frame {
    Data(Vec<u8>),
    Close,
    Broken,
}

pub fn take_frame(buf: &mut Vec<u8>) -> Option<Frame> {
    if buf.len() < 4 {
        return None;
    }
    let len = u32::from_be_bytes([buf[0], buf[1], buf[2], buf[3]]);
    if len == CLOSE_MARK {
        buf.drain(..4);
        return Some(Frame::Close);
    }
    if len == BROKEN_MARK {
        buf.drain(..4);
        return Some(Frame::Broken);
    }
    let len = len as usize;
    if buf.len() < 4 + len {
        return None;
    }
    let payload = buf[4..4 + len].to_vec();
    buf.drain(..4 + len);
    Some(Frame::Data(payload))
}

/// Blocking read of one frame. None = EOF / close.
pub fn read_frame_blocking(ep: usize, buf: &mut Vec<u8>, deadline: Option<u64>) -> Option<Frame> {
    loop {
        if let Some(f) = take_frame(buf) {
            return Some(f);
        }
        if !pump(ep, buf) {
            return take_frame(buf);
        }
        if let Some(f) = take_frame(buf) {
            return Some(f);
        }
        let rx = with(|k| k.net.endpoints[ep].rx);
        match deadline {
            Some(t) => {
                if kernel::now() >= t {
                    return None;
                }
                kernel::wait(Wait::Any(vec![Wait::PipeReadable(rx), Wait::Until(t)]), false)
            }
            None => kernel::wait(Wait::PipeReadable(rx), false),
        }
    }
}
