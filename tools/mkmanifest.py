#!/usr/bin/env python3
"""Regenerate /verif/MANIFEST.json from the table below and validate it against the schema."""
import json, sys, os
HERE = os.path.dirname(os.path.abspath(__file__))
ROOT = os.path.dirname(HERE)
ids = [json.loads(l)["id"] for l in open(os.path.join(ROOT, "properties.jsonl"))]

TECH = "deterministic whole-program simulation (std-facade substitution under a seeded scheduler) with fault injection; "
CLAIMED = {
    "C18": dict(
        level="exploration", ref="DESIGN.md 5/C18",
        text="The C06 histories (writes, removes, increments, incremental and reclaiming snapshots, restarts over 1-2 databases) run with NUN_STORAGE_STRATEGY=s3 and s3_patition (1, 3 and 10 partitions, fixed per worker process) against an in-process S3 stub served over a real loopback socket to the real aws-sdk-s3; each restart is compared key by key, version by version and for id/strategy with the state captured when the snapshot completed. Fault sequences per history: the n-th PUT of an object fails once (result must equal the fault-free one), every PUT fails (must be reported by an error log or a failed snapshot, keys must stay pending, and once the store recovers a completed snapshot must restore everything), the first GET fails (restart succeeds or fails loudly). Faults are sampled per history, not enumerated over every request. Upload faults that outlast the SDK's own retries (first 3-5 PUTs of an object fail) and downloads that always fail are part of the fault sequences.",
        note="aws-sdk-s3/tokio/loopback socket are real and outside the scheduler (each SDK call is one atomic step); the S3 service is a stub; no crash between the PUTs of one snapshot",
        technique=TECH + "restart comparison against the state at the last completed snapshot with request-level upload/download faults in an S3 stub",
    ),
    "C08": dict(
        level="exploration", ref="DESIGN.md 5/C08",
        text="Non-interference by paired deterministic runs: each seeded case (a non-administrator session sending 1-6 commands from 30 templates x 10 secure/plain key arguments, interleaved with administrator writes and version conflicts on $$ keys) is simulated twice with the same seed and schedule, the two worlds differing only in the values stored under $$ keys; the low session's transcripts must be identical, no low command may change a $$ key and $$token must survive remove. The worlds also differ in the name of one secure key and in the permission list of a user the low session never logs in as.",
        note="no fault dimension; relies on the simulator's determinism; secret values have equal lengths in both worlds",
        technique=TECH + "two-run non-interference oracle over seeded command sequences",
    ),
    "C09": dict(
        level="exploration", ref="DESIGN.md 5/C09",
        text="Seeded walk of the credential x command x permission-list x key matrix (35 commands = every parser command word, 7 login kinds, 9 permission lists, permission changes mid-session) against an access-control reference model on a node booted by start_db: a denied command must leave the full white-box state (databases, role, member table, snapshot queue, pending operations) unchanged and return no data line; an allowed one must not be refused for lack of credentials; a failed use-db must keep the previous selection. One case in eight runs the same walk on the primary of a 2-node cluster: a refused command must leave the secondary's data unchanged too. Logins include a non-existent user with the literal text of an absent value as token; in the cluster scenario the session is on the primary or on the secondary and the other node's data must stay unchanged too.",
        note="essentially model-based input generation hosted in the simulator (the cluster commands' side effects really start threads); disruptive cluster commands are tested for refusal only",
        technique=TECH + "access-control reference model with full-state diff on refusal",
    ),
    "C20": dict(
        level="exploration", ref="DESIGN.md 5/C20",
        text="Bodies of 1-6 ';'-separated statements (with trailing ';', blanks and spaces) are sent as one HTTP request to the real http_ops worker loop or as one WebSocket frame; the reference executes the same commands one at a time with a fresh direct session on a mirrored database set: entry i must equal what command i alone produces, counts must match, both database sets must end equal, and the request's session must leave no connection or watcher behind. The statement alphabet includes watch (later writes of the same request notify its own session). After the request the published $connections key is read as well as the in-memory counter.",
        note="input/history dominated; tiny_http / ws wire layers are facades; the CLI clause is outside the simulator",
        technique=TECH + "differential oracle (batched request vs one-command-at-a-time reference)",
    ),
    "C13": dict(
        level="exploration", ref="DESIGN.md 5/C13",
        text="Seeded sequences of plain / versioned / stale writes interleaved with arbiter connect, disconnect and resolve (the arbiter is a harness session that echoes op id and version of the oldest notice) on an arbiter-strategy database, on one node and in 2-3 node clusters with arbiter and writer on the primary or a secondary; a conflict-queue model per key checks refusal vs queueing, the $conflicts_ records, once-per-registration delivery, the value after each resolution, writability and emptiness at the end and replica agreement. The arbiter answers its oldest or its newest notice.",
        note="arbiter client is a stub; an error reply is not required when a conflict is queued; arbiter/writer on a secondary are recorded known findings",
        technique=TECH + "conflict-queue reference model stepped operation by operation, replicas compared at quiescence",
    ),
    "C19": dict(
        level="exploration", ref="DESIGN.md 5/C19",
        text="1-6 plain and versioned writes (below/at/above the current version, unique values) on a newer-strategy database (and on $admin): sequentially with background snapshots in between, from two concurrent sessions under lock-level interleavings (history linearizable against 'store your value or keep the current one, reply = stored value'), and replicated to 1-2 secondaries; no write may be refused, the reply of the storage API names the stored value, versions never decrease, watchers are notified iff the value changed, replicas hold the primary's values. In the concurrent scenario the version announced to a watcher must never exceed the version the key ends with.",
        note="the reply is observed at db_ops::set_key_value (the transports reduce it to ok); replica versions are C04's subject",
        technique=TECH + "linearizability check of concurrent write histories plus sequential oracle and replica comparison",
    ),
    "C05": dict(
        level="exploration", ref="DESIGN.md 5/C05",
        text="A real primary accumulates a seeded history over 1-3 databases; the second real node has never been up, was killed or was shut down by SIGINT (with or without a snapshot on its simulated disk) and then (re)joins through the real join / election / replicate-since protocol while a writer keeps writing on the primary; at quiescence its white-box dump must equal the primary's (token, strategy, values byte for byte, versions, removed keys). Fault sequences = departure kind x split of the history x writes racing the synchronisation. During-sync writes are either spread over the first second or issued at the instant the primary can read the joiner's replicate-since request (so they interleave with the catch-up computation, incl. a targeted remove/overwrite of a key the catch-up carries); one history in twelve adds 90-260 keys while the node is away (catch-up longer than the link's 100-message channel, judged by key presence). A second scenario lets a node that never ran join a primary (optionally killed and restarted first, so that its oplog is empty) whose history avoids the recorded findings, and compares databases and key sets (including user and permission keys).",
        note="runs whose join does not settle are discarded unless a node panicked; most violation classes on the pinned tree are recorded known findings (catch-up format pinned by unit tests)",
        technique=TECH + "rejoin fault sequences with a dataset-equality oracle at quiescence",
    ),
    "C15": dict(
        level="exploration", ref="DESIGN.md 5/C15",
        text="(a) 2-4 tasks call the real register_pending_opp / acknowledge_pending_opp on the Databases of a booted node under lock-level interleavings (duplicates, early and foreign acks); return values and final counters must be explained by some real-time-consistent order against a set model. (b) The same accounting end to end in a 2-3 node cluster with a rogue authenticated peer injecting duplicate / unknown / foreign ack lines; pending_ops must return to 0 at quiescence and rogue acks must change nothing observable.",
        note="each (op,node) pair registered at most once; shuttle SeqCst",
        technique=TECH + "linearizability-style explanation of the accounting calls against a set model, plus end-to-end observation in the cluster",
    ),
    "C04": dict(
        level="exploration", ref="DESIGN.md 5/C04",
        text="2-3 real nodes form a cluster through the real join/election protocol over the simulated TCP (FIFO links, latency/jitter); 1-8 operations are issued by sessions at arbitrary nodes (sequentially with quiescence in between, back to back, or from two concurrent clients on the primary); at quiescence the white-box dump of every node (databases, strategy, per-key value / removed-or-live / version) must equal the primary's. Seeded search over programs x delivery interleavings. Witness classes tell value-replacing writes from commuting ones (an increment-only divergence is a different class from the recorded set-on-a-secondary findings). The working database uses the none or the newer strategy, versioned writes may be stale, and every snapshot request is really run by each node's snapshot thread (racing with the operations that follow unless the history waits for quiescence).",
        note="clusters that do not form with the oldest node as primary are discarded (C07's subject); $connections, oplog contents and ids are not compared; writes issued on secondaries and two racing clients on the primary are recorded known findings",
        technique=TECH + "multi-node convergence oracle over white-box dumps at quiescence",
    ),
    "C07": dict(
        level="exploration", ref="DESIGN.md 5/C07",
        text="2-3 real nodes (real start_db, join, election, set-primary traffic, one thread per connection) are booted 1 ms - 2.5 s apart over the simulated TCP with latency kept below timeout/4 and timers firing only when no task can run; after start-up and after each of 0-3 triggers (forced election on any node, two at once, primary/secondary kill, restart) the cluster must become quiet within 6 x (timeout + 1.1 s) with exactly one primary = the oldest live node and all member tables agreeing (bounded liveness). Seeded search over triggers x delivery interleavings x election timeout.",
        note="judged only at quiescence; 'oldest' = smallest process id; node clocks not skewed; several election defect families are recorded known findings (known_findings.json), the remaining trigger/boot classes must be clean",
        technique=TECH + "bounded-liveness and agreement oracle at quiescence",
    ),
    "C14": dict(
        level="exploration", ref="DESIGN.md 5/C14",
        text="On a stable cluster of 2-3 real nodes every client-visible command (incl. an arbiter conflict and its resolve) is issued one at a time on a seeded node; every line crossing an inter-node link is recorded and attributed (forwards, copies per replicated message, acks, secondary-to-secondary traffic), and the cluster must fall silent within a budget far above the bound and stay silent for 2 x the election timeout. The working database uses the none or the newer strategy; one replicated message per client operation (the arbiter conflict/resolve path keeps a constant of three).",
        note="membership/election traffic is not generated here; the arbiter client is a harness stub answering each notice once",
        technique=TECH + "per-operation accounting of every line on the simulated links plus a quiescence check",
    ),
    "C03": dict(
        level="exploration", ref="DESIGN.md 5/C03",
        text="Seeded search over lock-level interleavings of 1-2 writer and 1-2 subscriber sessions (watch/unwatch/unwatch-all/disconnect) on a node booted by start_db, direct and over the real TCP handler; the recorded history (global sequence stamps, unique values) is checked: every accepted write entirely inside a subscription is notified exactly once, refused and outside writes never, and the highest-versioned notification equals the final value. Values are mostly unique, one write in five repeats the key's previous value (notifications are then judged by count per value). Writers sometimes issue 40-140 writes back to back (a subscriber that is not reading piles up more notifications than its channel's nominal capacity); a third of the cases use a newer-strategy database with a single writer.",
        note="boundary-overlapping mutations may or may not be notified; increments/removes judged by counts; shuttle SeqCst",
        technique=TECH + "history check of notifications against subscription intervals",
    ),
    "C10": dict(
        level="exploration", ref="DESIGN.md 5/C10",
        text="Grammar-based hostile lines (every parser command word x hostile token alphabet, raw bytes, pipelining without reading) are sent over the real TCP / WebSocket / HTTP handlers of a node booted by start_db on the simulated wire, unauthenticated and as administrator; after every line the harness checks that no task of the node panicked and that a second client can connect and complete a set/get round trip; sampling. Long tokens are ASCII or 2/3/4-byte characters; optionally a second administrator connection sends its i-th line at the same instant as the attacker's i-th line, and a scenario of two administrator connections issuing well-formed database-switch / create-db / named-snapshot commands exercises the lock paths; half of the seeds model std's writer-preferring RwLock.",
        note="overflow checks on (test-profile semantics); panics are caught per task like OS threads and recorded with their source location; ws/http wire framing is the facade's",
        technique=TECH + "seeded grammar fuzzing of the wire protocol with panic capture and liveness probes",
    ),
    "C17": dict(
        level="exploration", ref="DESIGN.md 5/C17",
        text="Seeded sequences of connect / use-db (same, other, wrong token, user token) / refused command / disconnect / HTTP request over the three real transports on the simulated wire; a counted observer session per database compares $connections with a counter model at every quiescent point and checks that its watcher saw every change; an interleaved scenario judges the end state of two concurrent sessions. A burst scenario lets 2-4 direct sessions select (and switch) databases at the same instant, checks every counter, then lets all leave at the same instant and checks again. WebSocket sessions may also end with a frame the protocol layer rejects (on_error, then on_close); TCP sessions may leave with notifications of a watched key queued (a close with unread data is a reset).",
        note="compared at quiescent points only; simulated TCP and ws/tiny_http facades",
        technique=TECH + "per-event comparison with a session-counter model through the public surface",
    ),
    "C12": dict(
        level="exploration", ref="DESIGN.md 5/C12",
        text="Logs are produced by the real replication loop of a simulated primary (real rotation, real declutter retention, restarts, optional coarse clock) and every query of read_operations_since / last_op_time is compared with a linear scan of the same simulated files; sampling of logs and since values. At every quiet point the records seen at the previous one must still be in the files unless a declutter or a restart happened in between (strict clock only).",
        note="the search routine itself is a pure function of file contents (input/history dominated); coarse-clock ties are recorded known findings",
        technique=TECH + "differential check of the oplog query against a linear-scan reference over the simulated files",
    ),
    "C16": dict(
        level="fault_enumeration", ref="DESIGN.md 5/C16",
        text="Seeded histories of create-db / first writes / subset snapshots with restarts by kill, by SIGINT (real safe_shutdown) and by a kill armed at the k-th next mutating disk call; after each restart the surviving oplog must be empty (and last_op_time 0) or decode record by record through the restarted node's id maps to the names attributed at write time; id uniqueness is checked at every quiet point. Crash points are sampled per history.",
        note="crash model = process kill; intent of each record is taken from the writing lifetime's own id maps; records of never-snapshotted databases are a recorded known finding",
        technique=TECH + "crash/restart fault sequences with a decode-or-discard oracle over the surviving oplog",
    ),
    "C06": dict(
        level="exploration", ref="DESIGN.md 5/C06",
        text="Seeded histories (2-40 steps) of writes/removes/increments/incremental and reclaiming snapshots/restarts over 1-2 databases; each restart (process kill after a completed snapshot + real start_db on the surviving simulated disk) is compared key by key, version by version and for id/strategy with the state captured when the snapshot completed; sampling.",
        note="simulated disk (inode semantics), clock and declutter timer; $connections ignored",
        technique=TECH + "restart-on-surviving-disk compared with the state at the last completed snapshot",
    ),
    "C11": dict(
        level="fault_enumeration", ref="DESIGN.md 5/C11",
        text="For each seeded dataset pair the mutating disk calls of the interrupted snapshot are counted in a fault-free run, then the node is killed before/after call k (quick: 6 sampled points per dataset, thorough: every point) and restarted by the real start_db; every key must hold its old or its new (value, version), persisted keys must survive, neighbours must be untouched. Crash points are enumerated per dataset; datasets are sampled. A quarter of the datasets add 6-30 new keys with names of 1-70 bytes and short or long values, so that the keys and values buffers spill at different moments.",
        note="crash model = process kill (completed syscalls survive, user-space buffers are lost); no fsync/power-loss claim; the space-reclaiming path is a recorded known finding (known_findings.json)",
        technique=TECH + "crash-point enumeration over every mutating disk call of the snapshot path, restart and old-or-new oracle",
    ),
    "C01": dict(
        level="exploration", ref="DESIGN.md 5/C01",
        text="Seeded generation of 1-30 command histories (incl. snapshot requests) against a plain-map oracle on a node booted by the real start_db, with the real background snapshot either between commands or released to race with them at lock granularity; sampling.",
        note="versions/error texts/$connections not compared; simulated disk/clock/timer facades; shuttle SeqCst",
        technique=TECH + "operation-by-operation comparison with a reference map, background snapshot as a scheduled concurrent task",
    ),
    "C02": dict(
        level="exploration", ref="DESIGN.md 5/C02",
        text="Seeded search over lock-level interleavings of 2-3 concurrent sessions running the real process_request on a node booted by the real start_db, checked for linearizability against a versioned-register model plus the sequential version rules; sampling, not enumeration. In half of the concurrent cases the initial keys were persisted by a completed snapshot (one may have been removed again: tombstone) and in a quarter a snapshot (incremental or reclaiming) runs on the node's snapshot thread while the clients execute.",
        note="shuttle SeqCst memory model; simulated clock/disk/tcp facades; `set-safe k -1 v` treated as the unversioned write",
        technique=TECH + "linearizability check of recorded histories against a versioned-register model",
    ),
}
NA_REASON = "check not built yet (work in progress; see DESIGN.md section 5)"

# what later rounds added to a check (appended to its text)
ADDENDA = {
    "C03": " Scenario replicated: a 2-node cluster, the writer on the primary, the subscribers are sessions of the secondary and must hear every accepted write once as a replicated write. Increment notifications must carry pairwise distinct totals and a covering subscription hears the final total.",
    "C06": " One restart in three is a clean one with a snapshot in flight (snapshot request, background run released, SIGINT at once): the shutdown must complete the snapshot. Database names share a prefix (d, d2).",
    "C08": " Half of the cases run the low session over the real TCP / WebSocket / HTTP front ends (HTTP: one request per command; in some cases the administrator's steps are HTTP requests served by the same workers).",
    "C09": " Scenario transport-sessions: 2-6 sessions one after the other over the real TCP / WebSocket / HTTP front ends, each judged by its own login only. Command SetWithLineFeed: a permitted write whose value carries a line feed and an administrative replication command must leave the secure key unchanged on every node.",
    "C10": " Database-name lists include lists with an unknown name in front (nosuch|q).",
    "C12": " What declutter retains must be the newest records (a contiguous suffix of what was there).",
    "C13": " One write per program may carry the value the keys start with (it must queue behind a pending conflict like any other).",
    "C14": " A quarter of the 3-node clusters are judged after a fail-over (first primary killed, the oldest survivor -- first known to the others as a secondary -- has taken over, 3 x timeout + 0.5 s of silence awaited); the writes that set a conflict up are judged as operations; runs are cut at 256 MB of inter-node traffic.",
    "C16": " A third of the histories arm a kill 1-4 mutating disk calls ahead of one of their writes (the window between key-id registration, flag update and oplog append).",
    "C19": " Scenario legacy: a database created with any strategy, persisted, the node stopped (kill or SIGINT), its metadata file absent from the data directory, restarted -- it must behave as newer. A quarter of the cases first register an arbiter / `watch $conflicts` session on the database (staying or gone).",
    "C20": " In half of the cases 1-4 HTTP requests of other clients (against another database set) are served by the same four workers before the judged request.",
}
for k, v in ADDENDA.items():
    CLAIMED[k]["text"] += v


# round-4 additions to what each check explores (appended to the texts above)
ROUND4 = {
    "C02": " A third scenario sends the sequential programs over the real TCP / WebSocket / HTTP front ends: a write the reply acknowledges must be stored, a refused one must have changed nothing; version arguments below -1 are in the alphabet.",
    "C03": " One case in seven uses an arbiter-strategy database with a passive arbiter (a write put aside as a conflict notifies nobody); a subscriber may vanish without clean-up (registrations stay, receiver gone) and the others must not notice. In a third of the runs a quarter of all TCP writes arrive as two segments.",
    "C04": " One value in five ends in blanks, a tab or a carriage return, starts with a blank or has several words: replicas must hold the very bytes. In a third of the programs a quarter of the writes on the links between the nodes arrive as two TCP segments (cut anywhere, the second part up to 2 ms later).",
    "C05": " The value `<Empty>` is in the alphabet and a quarter of the cases run with --tcp-address different from --external-address (address aliases in the simulated net). In a third of the runs the inter-node writes arrive in two TCP segments.",
    "C06": " Histories on arbiter-strategy databases register arbiter sessions and make stale versioned writes (conflicts put aside before and after snapshots); a quarter of the biased histories release incremental snapshots to race with the following commands (the next snapshot that completes alone must be restored exactly); identifiers must stay unique and a database that returns without a completed snapshot must return with its own identifier and strategy. Incremental snapshots may also be killed at their k-th disk call (database with an earlier completed snapshot), after which the history goes on.",
    "C07": " A third of the latency cases use a narrow band of uniformly slow messages; in a quarter of the cases one direction of one link is slower than the 100 ms claim grace (well below the timeout), during the triggers or from the first boot (the latter is a recorded finding).",
    "C08": " The administrator also tries `replicate-remove d $$token`, `rp 9 remove $$token` and `rp 9 replicate-remove d $$token`.",
    "C09": " Administrator steps snapshot (the background snapshot runs on every node) and remove-user; commands `election <not win/candidate> <name>\\n<replication command>` and `resolve` naming a database the session never selected (that database must not change on any node).",
    "C10": " Lines may nest replication envelopes 2-20000 levels deep (tasks have std's 2 MiB thread stack; a dying worker process is attributed to its line), WebSocket binary frames, path-like database names, arbiter lines; in a quarter of the cases the background snapshot runs after every line, and in a third of those its first run meets a disk error (open for writing fails once): that thread's own panic is exempt, every client line after it is judged. In a third of the runs a quarter of all TCP writes (the attacker's lines too) arrive as two segments.",
    "C13": " In a third of the cases the administrator arbiter also selects and registers for a second arbiter database. The two key names are `ka` and `kab` (one begins with the other).",
    "C15": " Unit scenario: an operation nobody acknowledges is registered first and a task polls the pending-count report while the other calls run (it must never read 0); cluster scenario: the acknowledgements of one secondary are held on the wire while 1-5 writes are made (each stays pending, listing that node as unacknowledged) and the count returns to 0 when they are delivered. Cluster scenario: in a third of the runs the inter-node writes arrive in two TCP segments.",
    "C14": " In a third of the runs the inter-node writes arrive in two TCP segments.",
    "C16": " Two administrators may create two databases at the same instant (identifiers must differ).",
    "C17": " A quarter of the burst cases snapshot every database and restart the node while the sessions are open: the first session of the new process reads 1, a second one 2, then 1 again.",
    "C18": " (C06's additions apply.) put-fails-always also for the metadata object alone, followed by a restart: the database comes back as itself or not at all.",
    "C20": " Bodies may select a second database (a subscription made in the first one must be gone when the request ends) and contain statements the parser refuses.",
}
for k, v in ROUND4.items():
    CLAIMED[k]["text"] = CLAIMED[k]["text"] + v

# round-5 additions
ROUND5 = {
    "C13": " A registering arbiter must not be sent records of conflicts that are answered already (`resolved ...`), during the run and at its end.",
    "C18": " put-fails-always variant after-removal: a first snapshot succeeds, a key is removed, then every PUT of the partition objects (s3_patition) / of the database's objects (s3) fails (the failure must be reported), the store recovers; when memory shows a completed state (no tombstone, everything clean) a restart must not bring the key back.",
    "C04": " Every node is compared with the primary (not only the first that differs); a node on which no client touched the key must equal the primary when every operation was followed by quiescence.",
    "C05": " A quarter of the workers each run with NUN_MAX_OP_LOG_SIZE 2500 / 10000: the primary's log rotates while a node is away.",
    "C08": " A user exists in one world only; the low session tries to log in as either with a wrong token (a failed login must not tell which exists).",
    "C12": " Two more log sizes (1030, 3330) whose rotation threshold is not a multiple of the 25-byte record.",
    "C06": " Half of the racing histories contain the motif write k / incremental snapshot released / remove k / write k again (the commands racing with the snapshot thread bring the key back to the version and state it copied, with another value).",
    "C09": " Command SetKeyWithLineFeed: a permitted write whose *key* carries a line feed followed by a command word (`set ka\\ncreate-db tok`): the set of databases of every node must be unchanged.",
    "C10": " In a quarter of the cases the attacker's session works on an arbiter database of its own with a registered arbiter and a conflict already pending on `k` (the conflict-queue paths, e.g. version + queue length); envelopes may nest behind a carriage return; after every line a user-token session exercises the attacker's database, and lines give that user's permission list / token values no set-permissions writes; the companion creates a database at the instant the attacker's session ends.",
    "C14": " In half of the fail-over clusters a client writes on the youngest node 1 ms to (election timeout + 400 ms) after the primary was killed, inside the election window: that node may drop or forward the operation but must not send it to more than one node. One program in eight ends with two resolved conflicts and a new arbiter registering (one client operation).",
    "C16": " One history in five with two or more databases begins with the motif: the first snapshot of a database dies after 1-12 disk calls, in the next life another database is created first, then the same name again, both are snapshotted, a write, restart. Records written for a database after it completed a snapshot must keep decoding (shape persisted-database-*, apart from the recorded never-snapshotted class); the id table the oplog reader uses must map every database's id to that database.",
}
for k, v in ROUND5.items():
    CLAIMED[k]["text"] = CLAIMED[k]["text"] + v

checks = []
for i in ids:
    if i in CLAIMED:
        c = CLAIMED[i]
        checks.append({
            "property_id": i,
            "quick_cmd": "./check %s quick" % i,
            "thorough_cmd": "./check %s thorough" % i,
            "evidence_file": "/verif/evidence/%s.json" % i,
            "replay_cmd_template": "./check --replay {path}",
            "engine": "nunsim",
            "level_claimed": {"category": c["level"], "text": c["text"], "design_ref": c["ref"]},
            "level_note": c["note"],
            "technique": c["technique"],
        })
m = {
    "version": 1,
    "setup_cmd": "./check --build",
    "hooks": {
        "guard": "nundb_verif",
        "enable": "sim/gen-src mirrors /repo/src into sim/gen/src and injects cfg(nundb_verif)-guarded `use nundb_verif_rt::stdx as std;`-style alias lines (add-only, never committed to /repo); sim/shadow/build.rs and sim/harness/build.rs emit --cfg nundb_verif",
        "baseline_off_cmd": "cd /repo && (cargo nextest run --workspace --no-fail-fast --tool-config-file pb:/w/lib/nextest.toml --profile pb --test-threads 8 --offline || cargo test --workspace --no-fail-fast --offline)",
        "source_commits": [],
        "add_only": True,
    },
    "engines": [{
        "name": "nunsim",
        "path": "/verif/sim",
        "serves_properties": sorted(CLAIMED.keys()),
        "kind_free_text": "deterministic simulator: real nun-db code over shuttle-scheduled std facades (threads, locks, clock, disk, TCP, timers, signals), seeded PRNG decides every interleaving, delay and fault; worker processes per core; replay files",
    }],
    "checks": checks,
    "not_applicable": [{"property_id": i, "reason": NA_REASON} for i in ids if i not in CLAIMED],
    "notes": "exit 0 = held (KNOWN-FINDING lines for entries of known_findings.json), 1 = VIOLATION, 2 = harness error. VERIF_SEED selects the master seed (default 1).",
}
json.dump(m, open(os.path.join(ROOT, "MANIFEST.json"), "w"), indent=1)
try:
    import jsonschema
    jsonschema.validate(m, json.load(open("/root/.vp/MANIFEST.schema.json")))
    print("MANIFEST.json valid;", len(checks), "checks")
except ImportError:
    print("MANIFEST.json written (jsonschema not available to validate)")
