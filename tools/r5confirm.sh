#!/bin/bash
# tools/r4confirm.sh Cxx n : confirm /tmp/r5/Cxx/out/m<n> in the sub-agent's (now idle) worktree and store it as seeded/Cxx-m<n>
P=$1; N=$2
D=/tmp/r5/$P/out/m$N; WT=/tmp/r5/$P/wt
[ -f $D/patch.diff ] || { echo "CONFIRM $P-m$N no patch.diff"; exit 1; }
DEMO=$(python3 -c "import json,sys; print(json.load(open('$D/meta.json')).get('demo_cmd',''))")
DEMO=$(echo "$DEMO" | sed -E 's/^(cd [^&]*&& *)?git apply [^&]*demo\.patch *&& *//')
[ -n "$DEMO" ] || { echo "CONFIRM $P-m$N no demo_cmd in meta.json"; exit 1; }
res=$(/verif/tools/confirm_seeded.sh $D $WT "$DEMO" 2>&1 | grep '^CONFIRM' | tail -1)
echo "$P-m$N $res"
if echo "$res" | grep -q ' CONFIRMED'; then
  T=/verif/seeded/$P-m$N; rm -rf $T; mkdir -p $T
  cp -r $D/patch.diff $D/demo.md $T/ 2>/dev/null; [ -d $D/extra ] && cp -r $D/extra $T/
  python3 - "$D/meta.json" "$T/meta.json" "$P-m$N" "$res" <<'PY'
import json,sys
m=json.load(open(sys.argv[1])); m['id']=sys.argv[3]; m['round']=5
m['confirmed_by_verifier']={"how":"tools/confirm_seeded.sh in a scratch worktree of /repo: patch.diff applied to HEAD, tools/runtests.sh (the BASELINE nextest command, 148 stable tests), demonstration run with the change and after reverting it","result":sys.argv[4]}
m['checks_run']="own property's quick check (and the checks named in seeded/ALSO.txt) in an isolated lane (tools/mutlane.sh); outcome in seeded/RESULTS.txt and DESIGN.md 11.8"
json.dump(m,open(sys.argv[2],'w'),indent=1)
PY
fi
