//! Shared pieces for the single-node key/value scenarios (C01, C06, C11, C16, C18, C19).
use crate::world::*;
use nundb::bo::{Databases, ValueStatus};
use nundb_verif_rt::kernel::Rng;
use nundb_verif_rt::stdx::sync::Arc;
use std::collections::BTreeMap;

#[derive(Clone, Debug, PartialEq)]
pub struct Entry {
    pub value: String,
    pub version: i32,
    pub deleted: bool,
}

/// White-box projection of one database: key -> (value, version, tombstone?).
pub fn dump_db(dbs: &Arc<Databases>, name: &str) -> Option<BTreeMap<String, Entry>> {
    let map = dbs.map.read().ok()?;
    let db = map.get(&name.to_string())?;
    let data = db.map.read().ok()?;
    let mut out = BTreeMap::new();
    for (k, v) in data.iter() {
        out.insert(
            k.clone(),
            Entry { value: v.value.clone(), version: v.version, deleted: v.state == ValueStatus::Deleted },
        );
    }
    Some(out)
}

/// Live (non-tombstone) keys only, without the connection counter.
pub fn live_view(d: &BTreeMap<String, Entry>) -> BTreeMap<String, (String, i32)> {
    d.iter()
        .filter(|(k, e)| !e.deleted && k.as_str() != "$connections")
        .map(|(k, e)| (k.clone(), (e.value.clone(), e.version)))
        .collect()
}

pub fn db_names(dbs: &Arc<Databases>) -> Vec<String> {
    let map = dbs.map.read().unwrap();
    let mut v: Vec<String> = map.keys().cloned().collect();
    v.sort();
    v
}

pub fn db_meta(dbs: &Arc<Databases>, name: &str) -> Option<(usize, String)> {
    let map = dbs.map.read().ok()?;
    let db = map.get(&name.to_string())?;
    Some((db.metadata.id, db.metadata.consensus_strategy.to_string()))
}

pub fn parse_value(msgs: &[String]) -> Option<String> {
    for m in msgs {
        if let Some(rest) = m.strip_prefix("value ") {
            return Some(rest.trim_end_matches('\n').to_string());
        }
    }
    None
}

pub fn parse_value_version(msgs: &[String]) -> Option<(i32, String)> {
    for m in msgs {
        if let Some(rest) = m.strip_prefix("value-version ") {
            let rest = rest.trim_end_matches('\n');
            let mut it = rest.splitn(2, ' ');
            let v = it.next()?.parse::<i32>().ok()?;
            let val = it.next().unwrap_or("").to_string();
            return Some((v, val));
        }
    }
    None
}

pub fn parse_keys(msgs: &[String]) -> Option<Vec<String>> {
    for m in msgs {
        if let Some(rest) = m.strip_prefix("keys ") {
            let rest = rest.trim_end_matches('\n');
            return Some(rest.split(',').filter(|s| !s.is_empty()).map(|s| s.to_string()).collect());
        }
    }
    None
}

/// The statement's pattern semantics: `p*` prefix, `*s` suffix, otherwise contains.
pub fn pattern_matches(pattern: &str, key: &str) -> bool {
    if pattern.ends_with('*') {
        key.starts_with(&pattern.replace('*', ""))
    } else if pattern.starts_with('*') {
        key.ends_with(&pattern.replace('*', ""))
    } else {
        key.contains(pattern)
    }
}

pub const VALUES: [&str; 12] = [
    "x", "", "hello big world", "10", "-3", "007", "ünï cødé", "10 apples", "0", "41", "a;b", "v",
];

pub fn gen_value(rng: &mut Rng, uniq: &mut u32) -> String {
    *uniq += 1;
    match rng.below(10) {
        0..=3 => VALUES[rng.below(VALUES.len() as u64) as usize].to_string(),
        4 => {
            // longer than the 250-byte writer buffers; one in six far longer than any 8 KiB I/O buffer
            // (ASCII or 3-byte characters, so that a cut at a buffer boundary can fall inside a character)
            let huge = rng.chance(1, 6);
            let n = if huge { rng.range(8_100, 30_000) } else { rng.range(240, 600) } as usize;
            let wide = huge && rng.chance(1, 2);
            let mut s = format!("L{}-", uniq);
            while s.len() < n {
                if wide {
                    s.push(char::from_u32(0x6f22).unwrap());
                } else {
                    s.push((b'a' + (s.len() % 26) as u8) as char);
                }
            }
            s
        }
        5 => format!("{}", rng.range(0, 200) as i64 - 100),
        _ => format!("u{}", uniq),
    }
}

/// Rust's `i32::from_str_radix(.., 10)` decides what nun-db calls numeric.
pub fn as_int(s: &str) -> Option<i32> {
    i32::from_str_radix(s, 10).ok()
}

/// Boot node 0 alone, wait until it is primary, return an admin session on database `d`
/// created with `strategy`.
pub fn single_node_with_db(w: &World, db: &str, token: &str, strategy: &str) -> Option<(Arc<Databases>, Session)> {
    w.boot(0, "");
    if !w.wait_primary(0, 5_000) {
        return None;
    }
    let dbs = w.dbs(0)?;
    let mut admin = Session::admin(&dbs);
    if admin.exec(&format!("create-db {} {} {}", db, token, strategy)).resp.is_err() {
        return None;
    }
    if admin.exec(&format!("use-db {} {}", db, token)).resp.is_err() {
        return None;
    }
    Some((dbs, admin))
}
