//! `std::thread` facade: shuttle tasks with node metadata inheritance, simulated sleep, and
//! panic capture (a panicking thread dies alone, as an OS thread would).
use crate::kernel::{self, with, PanicRecord, TaskMeta};
use std::panic::{catch_unwind, resume_unwind, AssertUnwindSafe};
pub use std::thread::Result;
use std::time::Duration;

pub struct JoinHandle<T> {
    inner: shuttle::thread::JoinHandle<std::thread::Result<T>>,
}

impl<T> JoinHandle<T> {
    pub fn join(self) -> Result<T> {
        match self.inner.join() {
            Ok(r) => r,
            Err(e) => Err(e),
        }
    }
    pub fn is_finished(&self) -> bool {
        false
    }
    pub fn task_id(&self) -> usize {
        usize::from(self.inner.thread().id())
    }
}

impl<T> std::fmt::Debug for JoinHandle<T> {
    fn fmt(&self, f: &mut std::fmt::Formatter<'_>) -> std::fmt::Result {
        write!(f, "JoinHandle")
    }
}

/// Spawn with explicit metadata (used by the harness to boot nodes / name client tasks).
pub fn spawn_with_meta<F, T>(meta: Option<TaskMeta>, f: F) -> JoinHandle<T>
where
    F: FnOnce() -> T + Send + 'static,
    T: Send + 'static,
{
    let parent = kernel::me();
    let meta = match meta {
        Some(m) => m,
        None => with(|k| {
            let mut m = k.meta(parent).cloned().unwrap_or_default();
            if let Some(n) = m.node {
                let node = &mut k.nodes[n as usize];
                node.task_ord += 1;
                m.ord = node.task_ord;
                m.name = format!("t{}", m.ord);
            } else {
                m.name = format!("{}+", m.name);
            }
            m
        }),
    };
    let meta2 = meta.clone();
    let inner = shuttle::thread::spawn(move || {
        let r = catch_unwind(AssertUnwindSafe(f));
        match r {
            Ok(v) => Ok(v),
            Err(p) => {
                let tearing_down = kernel::try_with(|k| k.finished).unwrap_or(true);
                if tearing_down {
                    resume_unwind(p);
                }
                let (msg, loc) = kernel::take_last_panic().unwrap_or_else(|| {
                    let m = if let Some(s) = p.downcast_ref::<&str>() {
                        s.to_string()
                    } else if let Some(s) = p.downcast_ref::<String>() {
                        s.clone()
                    } else {
                        "<non-string panic>".to_string()
                    };
                    (m, "?".to_string())
                });
                with(|k| {
                    let at = k.now;
                    k.panics.push(PanicRecord {
                        node: meta2.node,
                        gen: meta2.gen,
                        task: meta2.name.clone(),
                        message: msg,
                        location: loc,
                        at_ns: at,
                    });
                });
                Err(p)
            }
        }
    });
    let child = usize::from(inner.thread().id());
    with(|k| {
        k.set_meta(child, meta);
        k.stats.tasks_spawned += 1;
    });
    JoinHandle { inner }
}

pub fn spawn<F, T>(f: F) -> JoinHandle<T>
where
    F: FnOnce() -> T + Send + 'static,
    T: Send + 'static,
{
    spawn_with_meta(None, f)
}

pub fn sleep(d: Duration) {
    kernel::sleep_ns(d.as_nanos() as u64);
}

pub fn yield_now() {
    shuttle::thread::yield_now();
}

pub fn panicking() -> bool {
    std::thread::panicking()
}

pub use shuttle::thread::{current, park, Thread, ThreadId};

#[derive(Debug, Default)]
pub struct Builder {
    name: Option<String>,
}
impl Builder {
    pub fn new() -> Self {
        Builder { name: None }
    }
    pub fn name(mut self, n: String) -> Self {
        self.name = Some(n);
        self
    }
    pub fn stack_size(self, _s: usize) -> Self {
        self
    }
    pub fn spawn<F, T>(self, f: F) -> std::io::Result<JoinHandle<T>>
    where
        F: FnOnce() -> T + Send + 'static,
        T: Send + 'static,
    {
        Ok(spawn(f))
    }
}
