//! C15 -- pending-operation accounting is exact and acknowledgements are idempotent.
use crate::common::*;
use crate::world::*;
use nundb::bo::Databases;
use nundb_verif_rt::kernel::{self, with, Rng};
use nundb_verif_rt::sim::{run_sim, SimConfig};
use nundb_verif_rt::stdx::sync::Arc;
use serde::{Deserialize, Serialize};
use serde_json::{json, Value as Json};
use std::collections::{BTreeMap, BTreeSet};
use std::sync::atomic::{AtomicU64, Ordering};
use std::sync::{Arc as StdArc, Mutex as StdMutex};

pub struct C15;

#[derive(Clone, Debug, Serialize, Deserialize, PartialEq)]
pub enum Ev {
    Reg { op: u64, node: usize },
    Ack { op: u64, node: usize },
    /// the member leaves the cluster (`remove_cluster_member`): either nothing changes for the pending
    /// operations, or the member's registrations are dropped together with whatever it had acknowledged --
    /// an operation that another member has not acknowledged stays pending either way
    Leave { node: usize },
}

#[derive(Clone, Debug, Serialize, Deserialize, PartialEq)]
pub enum Rogue {
    /// acknowledge the last replicated operation again, as the same secondary
    Duplicate,
    /// acknowledge an operation id that does not exist
    Unknown,
    /// acknowledge the last operation in the name of a node that is not a member
    Foreign,
}

#[derive(Clone, Debug, Serialize, Deserialize)]
pub struct Program {
    /// unit scenario: one event list per task
    pub tasks: Vec<Vec<Ev>>,
    /// cluster scenario
    pub nodes: usize,
    pub writes: u32,
    pub rogue: Vec<Rogue>,
    /// cluster scenario: the writes are issued back to back (acknowledgements of one operation arrive while
    /// the next ones are being handed to the members); the count must be back at zero when all is quiet
    #[serde(default)]
    pub back_to_back: bool,
    /// cluster scenario: the acknowledgements of one secondary are held on the wire (its link towards the
    /// primary delivers nothing for a while): every operation written meanwhile is still unacknowledged by that
    /// node and must be reported as pending -- whatever the other secondary acknowledged -- and the count is
    /// back at zero once the link delivers again
    #[serde(default)]
    pub hold_acks: bool,
}

/// (unit scenario) an operation registered for node 0 that is never acknowledged
const STUCK_OP: u64 = 990_001;
/// ... a node that none of the generated calls names (it neither acknowledges nor leaves)
const STUCK_NODE: &str = "10.9.0.4:3014";
const NODES: [&str; 3] = ["10.9.0.1:3014", "10.9.0.2:3014", "10.9.0.3:3014"];

fn gen_unit(rng: &mut Rng) -> Program {
    let nt = rng.range(2, 4) as usize;
    let nops = rng.range(1, 3);
    let nn = rng.range(1, 3) as usize;
    // registrations: each (op,node) at most once, spread over the tasks; acks: any, incl. duplicates,
    // early ones and foreign ones
    let mut tasks: Vec<Vec<Ev>> = vec![vec![]; nt];
    for op in 1..=nops {
        for node in 0..nn {
            if rng.chance(4, 5) {
                tasks[rng.below(nt as u64) as usize].push(Ev::Reg { op, node });
            }
        }
    }
    let nacks = rng.range(1, 6);
    for _ in 0..nacks {
        let t = rng.below(nt as u64) as usize;
        let pos = rng.below(tasks[t].len() as u64 + 1) as usize;
        tasks[t].insert(pos, Ev::Ack { op: rng.range(1, nops + 1), node: rng.below(3) as usize });
    }
    if rng.chance(1, 3) {
        let t = rng.below(nt as u64) as usize;
        let pos = rng.below(tasks[t].len() as u64 + 1) as usize;
        tasks[t].insert(pos, Ev::Leave { node: rng.below(3) as usize });
    }
    for t in tasks.iter_mut() {
        // keep per-task order but shuffle lightly
        if t.len() > 1 && rng.chance(1, 2) {
            let i = rng.below(t.len() as u64 - 1) as usize;
            t.swap(i, i + 1);
        }
    }
    Program { tasks, nodes: 0, writes: 0, rogue: vec![], back_to_back: false, hold_acks: false }
}

fn gen_cluster(rng: &mut Rng) -> Program {
    let n = rng.range(0, 3) as usize;
    if rng.chance(1, 3) {
        return Program { tasks: vec![], nodes: rng.range(2, 3) as usize, writes: rng.range(3, 14) as u32, rogue: vec![], back_to_back: true, hold_acks: false };
    }
    if rng.chance(1, 3) {
        return Program { tasks: vec![], nodes: rng.range(2, 3) as usize, writes: rng.range(1, 5) as u32, rogue: vec![], back_to_back: false, hold_acks: true };
    }
    Program {
        tasks: vec![],
        nodes: rng.range(2, 3) as usize,
        writes: rng.range(1, 6) as u32,
        rogue: (0..n)
            .map(|_| match rng.below(3) {
                0 => Rogue::Duplicate,
                1 => Rogue::Unknown,
                _ => Rogue::Foreign,
            })
            .collect(),
        back_to_back: false,
        hold_acks: false,
    }
}

#[derive(Clone, Debug)]
struct Rec {
    ev: Ev,
    invoke: u64,
    ret: u64,
    result: Option<bool>,
}

#[derive(Clone, Debug, PartialEq)]
struct OpState {
    pending: bool,
    replicate_count: usize,
    ack_count: usize,
}

struct Outcome {
    setup: Result<(), String>,
    violations: Vec<Violation>,
    recs: Vec<Rec>,
    finals: BTreeMap<u64, Option<OpState>>,
    overlapped: bool,
}

fn observe(dbs: &Arc<Databases>, op: u64) -> Option<OpState> {
    dbs.get_pending_opp_copy(op).map(|m| OpState {
        pending: !m.is_full_acknowledged() || true,
        replicate_count: m.count_replication(),
        ack_count: m.count_acknowledged(),
    })
}

/// sequential model: registered (op,node) pairs and which of them are acked
#[derive(Clone, Default)]
struct Model {
    ops: BTreeMap<u64, BTreeMap<usize, bool>>,
}
impl Model {
    fn apply(&mut self, ev: &Ev) -> Option<bool> {
        match ev {
            Ev::Reg { op, node } => {
                self.ops.entry(*op).or_default().insert(*node, false);
                None
            }
            Ev::Ack { op, node } => {
                let mut done = false;
                let r = match self.ops.get_mut(op) {
                    Some(m) => match m.get_mut(node) {
                        Some(a) if !*a => {
                            *a = true;
                            done = m.values().all(|x| *x);
                            true
                        }
                        _ => false,
                    },
                    None => false,
                };
                if done {
                    self.ops.remove(op);
                }
                Some(r)
            }
            Ev::Leave { .. } => None,
        }
    }
    /// the other legal meaning of a leave: the member's registrations (and its acknowledgements) are dropped
    fn apply_leave_releasing(&mut self, node: usize) {
        let ops: Vec<u64> = self.ops.keys().cloned().collect();
        for op in ops {
            let m = self.ops.get_mut(&op).unwrap();
            if m.remove(&node).is_some() && (m.is_empty() || m.values().all(|x| *x)) {
                self.ops.remove(&op);
            }
        }
    }
    fn state(&self, op: u64) -> Option<OpState> {
        self.ops.get(&op).map(|m| OpState { pending: true, replicate_count: m.len(), ack_count: m.values().filter(|x| **x).count() })
    }
}

fn explain(recs: &[&Rec], used: u32, m: &Model, finals: &BTreeMap<u64, Option<OpState>>) -> bool {
    if used.count_ones() as usize == recs.len() {
        return finals.iter().all(|(op, st)| &m.state(*op) == st);
    }
    for i in 0..recs.len() {
        if used & (1 << i) != 0 {
            continue;
        }
        if (0..recs.len()).any(|j| j != i && used & (1 << j) == 0 && recs[j].ret < recs[i].invoke) {
            continue;
        }
        let mut m2 = m.clone();
        let r = m2.apply(&recs[i].ev);
        if r != recs[i].result {
            continue;
        }
        if explain(recs, used | (1 << i), &m2, finals) {
            return true;
        }
        if let Ev::Leave { node } = &recs[i].ev {
            let mut m3 = m.clone();
            m3.apply_leave_releasing(*node);
            if explain(recs, used | (1 << i), &m3, finals) {
                return true;
            }
        }
    }
    false
}

fn execute_unit(prog: Program) -> Outcome {
    let mut out = Outcome { setup: Err("boot".into()), violations: vec![], recs: vec![], finals: BTreeMap::new(), overlapped: false };
    let w = World::new(1);
    w.boot(0, "");
    if !w.wait_primary(0, 5_000) {
        out.setup = Err("setup_unstable".into());
        return out;
    }
    let dbs = match w.dbs(0) {
        Some(d) => d,
        None => return out,
    };
    out.setup = Ok(());
    let seq = StdArc::new(AtomicU64::new(1));
    let recs: StdArc<StdMutex<Vec<Rec>>> = StdArc::new(StdMutex::new(Vec::new()));
    let mut hs = Vec::new();
    // an operation nobody acknowledges, registered before anything else: while the other calls run, every report of
    // the pending count (what `metrics-state` prints) must say that something is pending
    dbs.register_pending_opp(STUCK_OP, "set stuck v".to_string(), &STUCK_NODE.to_string());
    let under_reports: StdArc<StdMutex<Vec<String>>> = StdArc::new(StdMutex::new(Vec::new()));
    {
        let (dbs, ur) = (dbs.clone(), under_reports.clone());
        let polls = 2 + prog.tasks.iter().map(|t| t.len()).sum::<usize>();
        hs.push(spawn_on_node(&w, 0, "poller", move || {
            for _ in 0..polls {
                let st = dbs.get_oplog_state();
                let n = st.find("pending_ops: ").map(|i| st[i + 13..].chars().take_while(|c| c.is_ascii_digit()).collect::<String>()).and_then(|x| x.parse::<u64>().ok());
                if n.map(|n| n == 0).unwrap_or(false) {
                    ur.lock().unwrap().push(st.clone());
                }
                nundb_verif_rt::stdx::thread::yield_now();
            }
        }));
    }
    for (ti, evs) in prog.tasks.iter().cloned().enumerate() {
        let (dbs, seq, recs) = (dbs.clone(), seq.clone(), recs.clone());
        hs.push(spawn_on_node(&w, 0, &format!("acct{}", ti), move || {
            for ev in evs {
                let invoke = seq.fetch_add(1, Ordering::SeqCst);
                let result = match &ev {
                    Ev::Reg { op, node } => {
                        dbs.register_pending_opp(*op, format!("set k v{}", op), &NODES[*node].to_string());
                        None
                    }
                    Ev::Ack { op, node } => Some(dbs.acknowledge_pending_opp(*op, &NODES[*node].to_string())),
                    Ev::Leave { node } => {
                        dbs.remove_cluster_member(&NODES[*node].to_string());
                        None
                    }
                };
                let ret = seq.fetch_add(1, Ordering::SeqCst);
                recs.lock().unwrap().push(Rec { ev, invoke, ret, result });
            }
        }));
    }
    for h in hs {
        let _ = h.join();
    }
    out.recs = recs.lock().unwrap().clone();
    if let Some(st) = under_reports.lock().unwrap().first() {
        out.violations.push(Violation::new("unacked-not-pending", "report-during-calls", format!("an operation sent to {} and never acknowledged is pending, but a report taken while other register/ack calls ran says: {}", STUCK_NODE, st)));
    }
    let ops: BTreeSet<u64> = out.recs.iter().filter_map(|r| match r.ev {
        Ev::Reg { op, .. } | Ev::Ack { op, .. } => Some(op),
        Ev::Leave { .. } => None,
    }).collect();
    for op in ops {
        out.finals.insert(op, observe(&dbs, op));
    }
    for a in out.recs.iter() {
        for b in out.recs.iter() {
            if a.invoke < b.invoke && b.invoke < a.ret {
                out.overlapped = true;
            }
        }
    }
    // invariants on what is observable
    for (op, st) in out.finals.iter() {
        if let Some(s) = st {
            if s.ack_count > s.replicate_count {
                out.violations.push(Violation::new("acks-exceed-copies", "unit", format!("op {}: ack_count {} > replicate_count {}", op, s.ack_count, s.replicate_count)));
            }
            if s.ack_count == s.replicate_count {
                out.violations.push(Violation::new("fully-acked-still-pending", "unit", format!("op {}: all {} copies acknowledged but still listed as pending", op, s.replicate_count)));
            }
        }
    }
    let refs: Vec<&Rec> = out.recs.iter().collect();
    if refs.len() <= 14 && !explain(&refs, 0, &Model::default(), &out.finals) {
        let kinds: BTreeSet<&str> = out
            .recs
            .iter()
            .map(|r| match r.ev {
                Ev::Reg { .. } => "register",
                Ev::Ack { .. } => "ack",
                Ev::Leave { .. } => "leave",
            })
            .collect();
        out.violations.push(Violation::new(
            "accounting-not-explained",
            kinds.into_iter().collect::<Vec<_>>().join("+"),
            format!(
                "no sequential order of the calls explains the results and the final state: {:?} ; final {:?}",
                out.recs.iter().map(|r| format!("{:?}[{}..{}]={:?}", r.ev, r.invoke, r.ret, r.result)).collect::<Vec<_>>(),
                out.finals
            ),
        ));
    }
    out
}

fn pending_count(s: &mut Session) -> Option<u64> {
    let r = s.exec("metrics-state");
    for m in r.msgs.iter() {
        if let Some(i) = m.find("pending_ops: ") {
            let rest = &m[i + 13..];
            let n: String = rest.chars().take_while(|c| c.is_ascii_digit()).collect();
            return n.parse().ok();
        }
    }
    None
}

fn execute_cluster(prog: Program) -> Outcome {
    let mut out = Outcome { setup: Err("form".into()), violations: vec![], recs: vec![], finals: BTreeMap::new(), overlapped: true };
    let w = World::new(prog.nodes);
    maybe_segment(3, true);
    let p = match w.form_cluster(1_300, 15_000) {
        Some(p) => p,
        None => {
            out.setup = Err("setup_unstable".into());
            return out;
        }
    };
    if p != 0 {
        out.setup = Err("setup_unstable".into());
        return out;
    }
    let d0 = match w.dbs(0) {
        Some(d) => d,
        None => return out,
    };
    let mut admin = Session::admin(&d0);
    admin.exec("create-db d tok none");
    admin.exec("use-db d tok");
    if !w.settle(300, 5_000) {
        out.setup = Err("setup_unstable".into());
        return out;
    }
    out.setup = Ok(());
    let base = pending_count(&mut admin);
    if base != Some(0) {
        out.violations.push(Violation::new("pending-not-zero", "after-formation".to_string(), format!("stable cluster, nothing in flight, pending_ops = {:?}; {:?}", base, d0.get_pending_messages_debug())));
        return out;
    }
    // a rogue (but authenticated) peer that injects ack lines over the wire
    let mut rogue = match WireClient::connect(&w.nodes[0].tcp) {
        Some(c) => c,
        None => return out,
    };
    rogue.greeting(1_000);
    rogue.request(&format!("auth {} {}", USER, PWD), 2_000);
    with(|k| k.net.line_log = Some(Vec::new()));
    let mut ri = 0;
    if prog.hold_acks {
        let held = 1 + (prog.writes as usize % (prog.nodes - 1));
        let (nh, n0) = (w.nodes[held].idx, w.nodes[0].idx);
        with(|k| {
            k.net.holds.push((nh, n0));
            k.fault("acks_held");
        });
        for i in 0..prog.writes {
            admin.exec(&format!("set h{} v{}", i, i));
        }
        // long enough for every copy to arrive and for the other secondary's acknowledgements to come back
        sleep_ms(1_500);
        let copies = with(|k| k.net.line_log.as_ref().map(|l| l.iter().filter(|r| r.to == Some(nh) && r.line.trim().starts_with("rp ") && r.line.contains(" replicate d h")).count()).unwrap_or(0));
        let n = pending_count(&mut admin);
        let dbg = d0.get_pending_messages_debug();
        if copies as u32 == prog.writes && n != Some(prog.writes as u64) {
            out.violations.push(Violation::new(
                "unacked-not-pending",
                format!("held-acks:{}nodes", prog.nodes),
                format!("{} writes were sent to {} whose acknowledgements are still on the wire: pending_ops = {:?}, expected {}; {:?}", prog.writes, w.nodes[held].tcp, n, prog.writes, dbg),
            ));
            with(|k| k.net.holds.clear());
            return out;
        }
        if copies as u32 == prog.writes {
            // the held node's copy is the unacknowledged one (how many other acknowledgements the entry shows is not
            // judged: an acknowledgement that arrives between the hand-overs to two members completes and drops the
            // entry, and the second hand-over starts a new one -- the operation is pending either way)
            for d in dbg.iter() {
                if !(d.contains("ack_count: ") && d.contains(&w.nodes[held].tcp)) {
                    // not the debug format this reading understands: nothing is concluded from it
                    continue;
                }
                if !d.contains(&format!("{}:false", w.nodes[held].tcp)) {
                    out.violations.push(Violation::new(
                        "unacked-not-pending",
                        format!("held-acks:{}nodes:detail", prog.nodes),
                        format!("pending entry does not list {} as unacknowledged: {}", w.nodes[held].tcp, d),
                    ));
                    break;
                }
            }
        }
        with(|k| k.net.holds.clear());
        if !w.settle(300, 8_000) {
            out.violations.push(Violation::new("no-quiescence", "held-acks".to_string(), "cluster still talking 8 s after the held link delivered again".to_string()));
            return out;
        }
        let n = pending_count(&mut admin);
        if n != Some(0) {
            out.violations.push(Violation::new("pending-not-zero", "held-acks".to_string(), format!("held acknowledgements delivered, everything quiet: pending_ops = {:?}; {:?}", n, d0.get_pending_messages_debug())));
        }
        return out;
    }
    if prog.back_to_back {
        for i in 0..prog.writes {
            admin.exec(&format!("set k{} v{}", i % 3, i));
        }
        if !w.settle(300, 8_000) {
            out.violations.push(Violation::new("no-quiescence", "back-to-back".to_string(), format!("{} writes back to back: cluster still talking after 8 s", prog.writes)));
            return out;
        }
        // asked over the wire, with a time limit: a node whose accounting is wedged does not answer
        match rogue.request("metrics-state", 5_000) {
            None => {
                out.violations.push(Violation::new("accounting-wedged", "back-to-back".to_string(), format!("{} writes back to back: `metrics-state` is not answered within 5 s", prog.writes)));
            }
            Some(lines) => {
                let n = lines.iter().find_map(|m| {
                    m.find("pending_ops: ").map(|i| m[i + 13..].chars().take_while(|c| c.is_ascii_digit()).collect::<String>()).and_then(|x| x.parse::<u64>().ok())
                });
                if n != Some(0) {
                    out.violations.push(Violation::new(
                        "pending-not-zero",
                        "back-to-back".to_string(),
                        format!("{} writes back to back, everything quiet: pending_ops = {:?} ({:?})", prog.writes, n, lines),
                    ));
                }
            }
        }
        return out;
    }
    for i in 0..prog.writes {
        admin.exec(&format!("set k v{}", i));
        if !w.settle(200, 5_000) {
            out.violations.push(Violation::new("no-quiescence", "set".to_string(), format!("write #{}: cluster still talking after 5 s", i)));
            return out;
        }
        let after = pending_count(&mut admin);
        if after != Some(0) {
            out.violations.push(Violation::new(
                "pending-not-zero",
                "all-acked".to_string(),
                format!("write #{}: every secondary acknowledged, pending_ops = {:?}; {:?}", i, after, d0.get_pending_messages_debug()),
            ));
            return out;
        }
        if ri < prog.rogue.len() {
            // find the op id of the last replicated write on the wire
            let last_id = with(|k| {
                k.net.line_log.as_ref().and_then(|l| {
                    l.iter().rev().find_map(|r| {
                        let t = r.line.trim();
                        if t.starts_with("rp ") && t.contains(" replicate d k ") {
                            t.split(' ').nth(1).and_then(|x| x.parse::<u64>().ok())
                        } else {
                            None
                        }
                    })
                })
            })
            .unwrap_or(1);
            let (line, kind) = match prog.rogue[ri] {
                Rogue::Duplicate => (format!("ack {} {}", last_id, w.nodes[1].tcp), "duplicate-ack"),
                Rogue::Unknown => (format!("ack {} {}", last_id + 12345, w.nodes[1].tcp), "unknown-ack"),
                Rogue::Foreign => (format!("ack {} 10.9.9.9:3014", last_id), "foreign-ack"),
            };
            ri += 1;
            with(|k| k.fault(kind));
            let before_dbg = d0.get_pending_messages_debug();
            rogue.request(&line, 2_000);
            let n = pending_count(&mut admin);
            let after_dbg = d0.get_pending_messages_debug();
            if n != Some(0) || before_dbg != after_dbg {
                out.violations.push(Violation::new(
                    "rogue-ack-changed-state",
                    kind.to_string(),
                    format!("`{}` changed the accounting: pending_ops {:?}, pending list {:?} -> {:?}", line, n, before_dbg, after_dbg),
                ));
                return out;
            }
        }
    }
    out
}

impl Property for C15 {
    fn id(&self) -> &'static str {
        "C15"
    }
    fn scenarios(&self) -> Vec<(&'static str, u32)> {
        vec![("unit-interleavings", 3), ("cluster", 1)]
    }
    fn budget(&self) -> (u64, u64) {
        (100_000, 2_000_000)
    }
    fn rule(&self) -> &'static str {
        "unit-interleavings: 2-4 tasks call Databases::register_pending_opp / acknowledge_pending_opp for 1-3 operations x 1-3 nodes (each pair registered at most once; acks incl. duplicates, acks before registration, acks from nodes never targeted) on the Databases of a node booted by start_db, every lock/atomic a preemption point; the return values and the final (pending?, replicate_count, ack_count) per operation must be explained by some order of the calls consistent with real time against a set model. cluster: 2-3 real nodes, 1-6 replicated writes, pending_ops must be > 0 before any ack can arrive and 0 at quiescence, and a rogue authenticated peer injects duplicate / unknown / foreign ack lines that must change neither pending_ops nor debug pending-ops. Non-trivial: two calls overlapped (unit) or a rogue ack was injected (cluster). distinct = distinct (program, task-switch sequence)."
    }
    fn components(&self) -> Json {
        json!({"real": ["Databases::register_pending_opp/acknowledge_pending_opp/get_pending_opp_copy", "ReplicationMessage", "replication loop + links + ack handling (cluster)", "metrics-state / debug pending-ops"],
               "simulated": ["threads/locks", "TCP", "clock"], "stub": ["rogue peer = harness wire client authenticated as administrator"]})
    }
    fn run_one(&self, scenario: &str, ctx: &RunCtx) -> RunReport {
        let mut rng = Rng::new(ctx.seed);
        let unit = scenario == "unit-interleavings";
        let prog: Program = match &ctx.program {
            Some(p) => serde_json::from_value(p.clone()).expect("program"),
            None => {
                if unit {
                    gen_unit(&mut rng)
                } else {
                    gen_cluster(&mut rng)
                }
            }
        };
        let mut cfg = SimConfig::new(ctx.seed ^ 0xc15);
        cfg.policy = policy_for(Rng::new(ctx.seed ^ 0x9011c7).next_u64());
        cfg.trace = ctx.trace;
        cfg.max_steps = 6_000_000;
        let p2 = prog.clone();
        let outcome = run_sim(cfg, move || if unit { execute_unit(p2) } else { execute_cluster(p2) });
        clear_registry();
        let mut rep = RunReport { seed: ctx.seed, scenario: scenario.to_string(), ..Default::default() };
        rep.program = serde_json::to_value(&prog).unwrap();
        rep.absorb_kernel(&outcome.kernel);
        if let Some(p) = outcome.harness_panic {
            rep.harness_error = Some(p);
            return rep;
        }
        let out = match outcome.result {
            Some(o) => o,
            None => {
                rep.discarded = Some("truncated".into());
                return rep;
            }
        };
        if let Err(e) = out.setup {
            rep.discarded = Some(e);
            return rep;
        }
        for p in outcome.kernel.panics.iter() {
            rep.violations.push(Violation::new("panic", p.location.rsplit('/').next().unwrap_or("?").to_string(), format!("{} at {}", p.message, p.location)));
        }
        rep.violations.extend(out.violations);
        rep.nontrivial = if unit { out.overlapped } else { !prog.rogue.is_empty() || prog.hold_acks };
        rep.case_hash = kernel::mix(hash_str(&rep.program.to_string()), outcome.kernel.switch_hash);
        rep
    }
    fn shrink(&self, _scenario: &str, program: &Json) -> Vec<Json> {
        let p: Program = match serde_json::from_value(program.clone()) {
            Ok(p) => p,
            Err(_) => return vec![],
        };
        let mut out = Vec::new();
        for i in 0..p.tasks.len() {
            for j in 0..p.tasks[i].len() {
                let mut q = p.clone();
                q.tasks[i].remove(j);
                out.push(serde_json::to_value(&q).unwrap());
            }
        }
        if p.writes > 1 {
            let mut q = p.clone();
            q.writes -= 1;
            out.push(serde_json::to_value(&q).unwrap());
        }
        for i in 0..p.rogue.len() {
            let mut q = p.clone();
            q.rogue.remove(i);
            out.push(serde_json::to_value(&q).unwrap());
        }
        out
    }
}
