//! `async_std` facade: real crate except `net::TcpStream`, which is the simulated TCP.
pub use ::async_std::*;

pub mod net {
    use crate::kernel::{self, with, Wait};
    use crate::stdx::net::{connect_ep, AsAddr};
    use futures::io::{AsyncRead, AsyncWrite};
    use std::io;
    use std::pin::Pin;
    use std::task::{Context, Poll};

    #[derive(Debug)]
    pub struct TcpStream {
        ep: usize,
    }
    impl TcpStream {
        pub async fn connect<A: AsAddr>(addr: A) -> io::Result<TcpStream> {
            let addr = addr.as_addr();
            connect_ep(&addr).map(|ep| TcpStream { ep })
        }
        fn poll_read_impl(&self, buf: &mut [u8]) -> Poll<io::Result<usize>> {
            if buf.is_empty() {
                return Poll::Ready(Ok(0));
            }
            let ep = self.ep;
            let r = with(|k| {
                let now = k.now;
                k.net.read(ep, buf, now)
            });
            match r {
                Some(0) => {
                    if with(|k| k.net.take_reset(ep)) {
                        with(|k| k.fault("tcp_reset_reported"));
                        return Poll::Ready(Err(io::Error::new(io::ErrorKind::ConnectionReset, "Connection reset by peer")));
                    }
                    Poll::Ready(Ok(0))
                }
                Some(n) => Poll::Ready(Ok(n)),
                None => {
                    let id = kernel::me();
                    with(|k| {
                        let rx = k.net.endpoints[ep].rx;
                        if k.io_interest.len() <= id {
                            k.io_interest.resize(id + 1, Vec::new());
                        }
                        k.io_interest[id].push(Wait::PipeReadable(rx));
                    });
                    Poll::Pending
                }
            }
        }
        fn poll_write_impl(&self, buf: &[u8]) -> Poll<io::Result<usize>> {
            let ep = self.ep;
            let r = with(|k| {
                let now = k.now;
                k.stats.bytes_sent += buf.len() as u64;
                let mut rng = k.rng;
                let r = k.net.write(ep, buf, now, &mut rng);
                k.rng = rng;
                r
            });
            match r {
                Ok(n) => Poll::Ready(Ok(n)),
                Err(()) => Poll::Ready(Err(io::Error::new(io::ErrorKind::BrokenPipe, "Broken pipe"))),
            }
        }
    }
    impl Drop for TcpStream {
        fn drop(&mut self) {
            let ep = self.ep;
            kernel::try_with(|k| k.net.close_endpoint(ep));
        }
    }
    impl AsyncRead for &TcpStream {
        fn poll_read(self: Pin<&mut Self>, _cx: &mut Context<'_>, buf: &mut [u8]) -> Poll<io::Result<usize>> {
            self.poll_read_impl(buf)
        }
    }
    impl AsyncWrite for &TcpStream {
        fn poll_write(self: Pin<&mut Self>, _cx: &mut Context<'_>, buf: &[u8]) -> Poll<io::Result<usize>> {
            self.poll_write_impl(buf)
        }
        fn poll_flush(self: Pin<&mut Self>, _cx: &mut Context<'_>) -> Poll<io::Result<()>> {
            Poll::Ready(Ok(()))
        }
        fn poll_close(self: Pin<&mut Self>, _cx: &mut Context<'_>) -> Poll<io::Result<()>> {
            let ep = self.ep;
            with(|k| k.net.close_endpoint(ep));
            Poll::Ready(Ok(()))
        }
    }
    impl AsyncRead for TcpStream {
        fn poll_read(self: Pin<&mut Self>, _cx: &mut Context<'_>, buf: &mut [u8]) -> Poll<io::Result<usize>> {
            self.poll_read_impl(buf)
        }
    }
    impl AsyncWrite for TcpStream {
        fn poll_write(self: Pin<&mut Self>, _cx: &mut Context<'_>, buf: &[u8]) -> Poll<io::Result<usize>> {
            self.poll_write_impl(buf)
        }
        fn poll_flush(self: Pin<&mut Self>, _cx: &mut Context<'_>) -> Poll<io::Result<()>> {
            Poll::Ready(Ok(()))
        }
        fn poll_close(self: Pin<&mut Self>, _cx: &mut Context<'_>) -> Poll<io::Result<()>> {
            let ep = self.ep;
            with(|k| k.net.close_endpoint(ep));
            Poll::Ready(Ok(()))
        }
    }
}
