//! `std::net` facade over the simulated TCP.
use crate::kernel::{self, with, Wait};
use std::io::{self, ErrorKind, Read, Write};
use std::sync::atomic::{AtomicBool, Ordering};
pub use std::net::{IpAddr, Ipv4Addr, Ipv6Addr, Shutdown, SocketAddr, ToSocketAddrs};

fn owner() -> (Option<(u32, u32)>, String) {
    let id = kernel::me();
    with(|k| match k.meta(id) {
        Some(m) => match m.node {
            Some(n) => (Some((n, m.gen)), format!("{}#{}", k.nodes[n as usize].name, m.name)),
            None => (None, m.name.clone()),
        },
        None => (None, format!("task{}", id)),
    })
}

pub trait AsAddr {
    fn as_addr(&self) -> String;
}
impl AsAddr for &str {
    fn as_addr(&self) -> String {
        self.to_string()
    }
}
impl AsAddr for String {
    fn as_addr(&self) -> String {
        self.clone()
    }
}
impl AsAddr for &String {
    fn as_addr(&self) -> String {
        (*self).clone()
    }
}

#[derive(Debug)]
pub struct TcpListener {
    id: usize,
}

impl TcpListener {
    pub fn id(&self) -> usize {
        self.id
    }
    pub fn bind<A: AsAddr>(addr: A) -> io::Result<TcpListener> {
        let addr = addr.as_addr();
        let (own, _) = owner();
        let r = with(|k| k.net.bind(&addr, own.map(|o| o.0), own.map(|o| o.1).unwrap_or(0)));
        match r {
            Ok(id) => Ok(TcpListener { id }),
            Err(()) => Err(io::Error::new(ErrorKind::AddrInUse, "Address already in use")),
        }
    }
    pub fn incoming(&self) -> Incoming<'_> {
        Incoming { l: self }
    }
    pub fn accept(&self) -> io::Result<(TcpStream, SocketAddr)> {
        loop {
            kernel::wait(Wait::Accept(self.id), false);
            let r = with(|k| {
                let l = &mut k.net.listeners[self.id];
                if !l.open {
                    return Some(Err(()));
                }
                l.queue.pop_front().map(Ok)
            });
            match r {
                Some(Ok(ep)) => {
                    return Ok((
                        TcpStream { ep, nonblocking: AtomicBool::new(false) },
                        SocketAddr::from(([127, 0, 0, 1], 1)),
                    ))
                }
                Some(Err(())) => return Err(io::Error::new(ErrorKind::Other, "listener closed")),
                None => continue,
            }
        }
    }
}
impl Drop for TcpListener {
    fn drop(&mut self) {
        let id = self.id;
        kernel::try_with(|k| k.net.close_listener(id));
    }
}

pub struct Incoming<'a> {
    l: &'a TcpListener,
}
impl<'a> Iterator for Incoming<'a> {
    type Item = io::Result<TcpStream>;
    fn next(&mut self) -> Option<Self::Item> {
        Some(self.l.accept().map(|p| p.0))
    }
}

#[derive(Debug)]
pub struct TcpStream {
    pub(crate) ep: usize,
    nonblocking: AtomicBool,
}

impl TcpStream {
    pub fn connect<A: AsAddr>(addr: A) -> io::Result<TcpStream> {
        let addr = addr.as_addr();
        connect_ep(&addr).map(|ep| TcpStream { ep, nonblocking: AtomicBool::new(false) })
    }
    pub fn set_nonblocking(&self, nb: bool) -> io::Result<()> {
        self.nonblocking.store(nb, Ordering::Relaxed);
        Ok(())
    }
    pub fn set_nodelay(&self, _v: bool) -> io::Result<()> {
        Ok(())
    }
    pub fn shutdown(&self, _how: Shutdown) -> io::Result<()> {
        let ep = self.ep;
        with(|k| k.net.close_endpoint(ep));
        Ok(())
    }
    pub fn endpoint(&self) -> usize {
        self.ep
    }
    fn do_read(&self, buf: &mut [u8]) -> io::Result<usize> {
        if buf.is_empty() {
            return Ok(0);
        }
        loop {
            let ep = self.ep;
            let r = with(|k| {
                let now = k.now;
                k.net.read(ep, buf, now)
            });
            match r {
                Some(0) => {
                    if with(|k| k.net.take_reset(ep)) {
                        with(|k| k.fault("tcp_reset_reported"));
                        return Err(io::Error::new(ErrorKind::ConnectionReset, "Connection reset by peer"));
                    }
                    return Ok(0);
                }
                Some(n) => return Ok(n),
                None => {
                    if self.nonblocking.load(Ordering::Relaxed) {
                        return Err(io::Error::new(ErrorKind::WouldBlock, "Resource temporarily unavailable"));
                    }
                    let rx = with(|k| k.net.endpoints[ep].rx);
                    kernel::wait(Wait::PipeReadable(rx), false);
                }
            }
        }
    }
    fn do_write(&self, buf: &[u8]) -> io::Result<usize> {
        let ep = self.ep;
        let r = with(|k| {
            let now = k.now;
            let mut rng = k.rng;
            let r = k.net.write(ep, buf, now, &mut rng);
            k.rng = rng;
            k.stats.bytes_sent += buf.len() as u64;
            r
        });
        match r {
            Ok(n) => Ok(n),
            Err(()) => Err(io::Error::new(ErrorKind::BrokenPipe, "Broken pipe")),
        }
    }
}

/// Shared by the sync and async streams.
pub(crate) fn connect_ep(addr: &str) -> io::Result<usize> {
    let (own, label) = owner();
    // a connection to another node takes (at least) one network hop before the peer sees it
    let hop = with(|k| {
        let to = k.net.lookup(addr).and_then(|l| k.net.listeners[l].node).or_else(|| k.net.addr_owner.get(addr).copied());
        match (own.map(|o| o.0), to) {
            (Some(a), Some(b)) if a != b => {
                let (lo, hi) = k.net.link_latency.get(&(a, b)).copied().unwrap_or(k.net.latency);
                Some(if hi > lo { lo + k.rng.below(hi - lo + 1) } else { lo })
            }
            _ => None,
        }
    });
    if let Some(d) = hop {
        if d > 0 {
            kernel::sleep_ns(d);
        }
    }
    let r = with(|k| match k.net.lookup(addr) {
        Some(l) => {
            let to = k.net.listeners[l].node;
            if k.net.partitioned(own.map(|o| o.0), to) {
                Err(true)
            } else {
                Ok(k.net.connect(l, own, &label))
            }
        }
        None => Err(false),
    });
    match r {
        Ok(ep) => Ok(ep),
        Err(true) => {
            // partitioned: SYNs are dropped, the connect times out
            kernel::sleep_ns(kernel::SEC);
            Err(io::Error::new(ErrorKind::TimedOut, "connection timed out"))
        }
        Err(false) => Err(io::Error::new(ErrorKind::ConnectionRefused, "Connection refused")),
    }
}

impl Drop for TcpStream {
    fn drop(&mut self) {
        let ep = self.ep;
        kernel::try_with(|k| k.net.close_endpoint(ep));
    }
}

impl Read for TcpStream {
    fn read(&mut self, buf: &mut [u8]) -> io::Result<usize> {
        self.do_read(buf)
    }
}
impl Write for TcpStream {
    fn write(&mut self, buf: &[u8]) -> io::Result<usize> {
        self.do_write(buf)
    }
    fn flush(&mut self) -> io::Result<()> {
        Ok(())
    }
}
impl Read for &TcpStream {
    fn read(&mut self, buf: &mut [u8]) -> io::Result<usize> {
        self.do_read(buf)
    }
}
impl Write for &TcpStream {
    fn write(&mut self, buf: &[u8]) -> io::Result<usize> {
        self.do_write(buf)
    }
    fn flush(&mut self) -> io::Result<()> {
        Ok(())
    }
}
