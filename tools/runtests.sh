#!/bin/bash
# Development tool: run nun-db's own suite in a worktree and say whether the 148 stable baseline tests pass.
#   tools/runtests.sh <worktree>      prints "RESULT OK <n> stable passed" or "RESULT FAIL <missing tests>"
WT=${1:-/repo}
cd $WT || exit 2
export CARGO_NET_OFFLINE=true CARGO_TARGET_DIR=${CARGO_TARGET_DIR:-$WT/target}
J=$CARGO_TARGET_DIR/nextest/pb/junit.xml
: > $WT/.suite.passed
# the integration tests (fixed ports, /tmp/dbs, wall-clock thresholds) flake on a loaded machine: like the baseline
# itself (3 runs), a test counts as passing when it passes in one of up to 3 runs
for attempt in 1 2 3; do
  rm -f $J
  cargo nextest run --workspace --no-fail-fast --tool-config-file pb:/w/lib/nextest.toml --profile pb --test-threads ${SUITE_THREADS:-8} --offline > $WT/.suite.log 2>&1
  [ -f $J ] || { echo "RESULT FAIL no junit (build error?)"; tail -5 $WT/.suite.log; exit 1; }
  python3 - "$J" "$WT/.suite.passed" <<'PY'
import sys, json, xml.etree.ElementTree as ET
ok = set(l.strip() for l in open(sys.argv[2]))
for tc in ET.parse(sys.argv[1]).getroot().iter('testcase'):
    if tc.find('failure') is None and tc.find('error') is None and tc.find('skipped') is None:
        cn = tc.get('classname'); nm = tc.get('name')
        ok.add(f"{cn}::{nm}"); ok.add(nm); ok.add(f"{cn.split('::')[0]}::{nm}")
open(sys.argv[2],'w').write("\n".join(sorted(ok)))
PY
  res=$(python3 - "$WT/.suite.passed" <<'PY'
import sys, json
stable = set(json.load(open('/root/.vp/BASELINE.json'))['stable_pass'])
ok = set(l.strip() for l in open(sys.argv[1]))
missing = [t for t in stable if t not in ok]
print("RESULT OK %d stable passed" % len(stable) if not missing else "RESULT FAIL " + " ".join(sorted(missing)[:8]))
PY
)
  case "$res" in "RESULT OK"*) echo "$res (attempt $attempt)"; exit 0;; esac
done
# what is still missing is run on its own (the fixed ports are then less likely to be taken by another job)
for t in $(echo "$res" | sed 's/^RESULT FAIL //'); do
  name=${t##*::}
  for attempt in 1 2 3 4; do
    rm -f $J
    cargo nextest run --workspace --no-fail-fast --tool-config-file pb:/w/lib/nextest.toml --profile pb --test-threads 1 --offline -E "test(/${name}\$/)" > $WT/.suite.log 2>&1
    if [ -f $J ] && python3 - "$J" "$name" <<'PY'
import sys, xml.etree.ElementTree as ET
ok=False
for tc in ET.parse(sys.argv[1]).getroot().iter('testcase'):
    if tc.get('name')==sys.argv[2] and tc.find('failure') is None and tc.find('error') is None: ok=True
sys.exit(0 if ok else 1)
PY
    then echo "$t" >> $WT/.suite.passed; echo "${t#*::}" >> $WT/.suite.passed; break; fi
    sleep 5
  done
done
res=$(python3 - "$WT/.suite.passed" <<'PY'
import sys, json
stable = set(json.load(open('/root/.vp/BASELINE.json'))['stable_pass'])
ok = set(l.strip() for l in open(sys.argv[1]))
missing = [t for t in stable if t not in ok and t.split('::',1)[1] not in ok]
print("RESULT OK %d stable passed (some only when run alone)" % len(stable) if not missing else "RESULT FAIL " + " ".join(sorted(missing)[:8]))
PY
)
echo "$res"
case "$res" in "RESULT OK"*) exit 0;; esac
exit 1
