//! World: simulated nodes running the real `start_db`, direct sessions and wire clients.
use crate::nun_main;
use nundb::bo::{Client, ClusterRole, Databases, Response};
use nundb::process_request::process_request;
use nundb_verif_rt::frame::{self, Frame};
use nundb_verif_rt::kernel::{self, with, TaskMeta, Wait, MS, SEC};
use nundb_verif_rt::stdx::net::TcpStream;
use nundb_verif_rt::stdx::sync::Arc;
use nundb_verif_rt::stdx::thread::{spawn_with_meta, JoinHandle};
use std::cell::RefCell;
use std::collections::HashMap;
use std::io::{Read, Write};

pub const USER: &str = "adm";
pub const PWD: &str = "sekret";

thread_local! {
    static REG: RefCell<HashMap<(u32, u32), Arc<Databases>>> = RefCell::new(HashMap::new());
}

/// Called by the proxy `create_init_dbs` from inside a node's main task.
pub fn register_dbs(d: &Arc<Databases>) {
    let id = kernel::me();
    let key = with(|k| k.meta(id).and_then(|m| m.node.map(|n| (n, m.gen))));
    if let Some(key) = key {
        REG.with(|r| r.borrow_mut().insert(key, d.clone()));
    }
}

/// Must be called between executions (objects of one run are never dropped inside the next).
pub fn clear_registry() {
    REG.with(|r| {
        let old = std::mem::take(&mut *r.borrow_mut());
        drop(old);
    });
}

/// TCP segmentation for this run, decided by the run's own random stream: in one run out of `one_in` a quarter of
/// the writes arrive as two segments (`between_nodes_only`: only on the links between nodes)
pub fn maybe_segment(one_in: u64, between_nodes_only: bool) {
    with(|k| {
        let mut rng = k.rng;
        let on = rng.below(one_in) == 0;
        k.rng = rng;
        if on {
            k.net.segment_p = 64;
            k.net.segment_scope = if between_nodes_only { 1 } else { 0 };
        }
    });
}

pub fn sleep_ms(ms: u64) {
    kernel::sleep_ns(ms * MS);
}

pub fn now_ms() -> u64 {
    (kernel::now() - kernel::EPOCH_BASE_NS) / MS
}

/// Poll `cond` every `poll_ms` of simulated time until it holds or `timeout_ms` elapsed.
pub fn wait_cond(timeout_ms: u64, poll_ms: u64, mut cond: impl FnMut() -> bool) -> bool {
    let deadline = kernel::now() + timeout_ms * MS;
    loop {
        if cond() {
            return true;
        }
        if kernel::now() >= deadline {
            return false;
        }
        kernel::sleep_ns(poll_ms * MS);
    }
}

#[derive(Clone, Debug)]
pub struct NodeSpec {
    pub idx: u32,
    pub tcp: String,
    pub http: String,
    pub ws: String,
    /// the address the TCP listener binds to (`--tcp-address`); `tcp` is the address the node announces and the
    /// others connect to (`--external-address`).  Equal unless the world was built with `new_split`.
    pub bind_tcp: String,
}

pub struct World {
    pub nodes: Vec<NodeSpec>,
}

impl World {
    pub fn new(n: usize) -> World {
        World::new_split(n, false)
    }

    /// `split`: every node binds its TCP listener to a private address and announces a public one
    /// (`--tcp-address` differs from `--external-address`, a node behind address translation)
    pub fn new_split(n: usize, split: bool) -> World {
        let mut nodes = Vec::new();
        for i in 0..n {
            let idx = with(|k| {
                let idx = k.add_node(&format!("n{}", i + 1));
                k.nodes[idx as usize].disk.mkdir_all("dbs");
                idx
            });
            with(|k| {
                for port in [3012, 3013, 3014] {
                    k.net.addr_owner.insert(format!("10.0.0.{}:{}", i + 1, port), idx);
                }
                if split {
                    k.net.addr_owner.insert(format!("172.16.0.{}:3014", i + 1), idx);
                    k.net.aliases.insert(format!("10.0.0.{}:3014", i + 1), format!("172.16.0.{}:3014", i + 1));
                }
                // messages between nodes are never instantaneous: CPU work costs no simulated time
                // here, so a zero-latency network would let a reply overtake the sender's own
                // next instruction (physically implausible schedules)
                if k.net.latency == (0, 0) {
                    k.net.latency = (50_000, 50_000);
                }
            });
            nodes.push(NodeSpec {
                idx,
                tcp: format!("10.0.0.{}:3014", i + 1),
                http: format!("10.0.0.{}:3013", i + 1),
                ws: format!("10.0.0.{}:3012", i + 1),
                bind_tcp: if split { format!("172.16.0.{}:3014", i + 1) } else { format!("10.0.0.{}:3014", i + 1) },
            });
        }
        World { nodes }
    }

    pub fn all_tcp(&self) -> String {
        self.nodes.iter().map(|n| n.tcp.clone()).collect::<Vec<_>>().join(",")
    }

    /// Start (or restart) node `i` through the real `start_db`.
    pub fn boot(&self, i: usize, replicate: &str) -> u32 {
        let spec = self.nodes[i].clone();
        let gen = with(|k| {
            // background-snapshot bookkeeping of the previous process generation: a tick that was requested
            // or running when that process went away will never finish
            let fired = k.ext.get(&format!("timer_fired_{}", spec.idx)).copied().unwrap_or(0);
            k.ext.insert(format!("timer_started_{}", spec.idx), fired);
            k.nodes[spec.idx as usize].declutter_kick = 0;
            k.new_generation(spec.idx)
        });
        let replicate = replicate.to_string();
        let _h: JoinHandle<()> = spawn_with_meta(
            Some(TaskMeta { node: Some(spec.idx), gen, name: "main".into(), ord: 0 }),
            move || {
                let _ = nun_main::verif_start_db(USER, PWD, &spec.ws, &spec.http, &spec.bind_tcp, &replicate, &spec.tcp);
            },
        );
        gen
    }

    pub fn dbs(&self, i: usize) -> Option<Arc<Databases>> {
        let idx = self.nodes[i].idx;
        let gen = with(|k| k.nodes[idx as usize].gen);
        REG.with(|r| r.borrow().get(&(idx, gen)).cloned())
    }

    pub fn alive(&self, i: usize) -> bool {
        let idx = self.nodes[i].idx;
        with(|k| k.nodes[idx as usize].alive)
    }

    pub fn role(&self, i: usize) -> Option<ClusterRole> {
        if !self.alive(i) {
            return None;
        }
        self.dbs(i).map(|d| d.get_role())
    }

    pub fn wait_dbs(&self, i: usize, timeout_ms: u64) -> Option<Arc<Databases>> {
        wait_cond(timeout_ms, 1, || self.dbs(i).is_some());
        self.dbs(i)
    }

    pub fn wait_primary(&self, i: usize, timeout_ms: u64) -> bool {
        wait_cond(timeout_ms, 5, || self.role(i) == Some(ClusterRole::Primary))
    }

    /// Wait until the node's TCP listener accepts connections.
    pub fn wait_listening(&self, i: usize, timeout_ms: u64) -> bool {
        let addr = self.nodes[i].tcp.clone();
        wait_cond(timeout_ms, 1, || with(|k| k.net.lookup(&addr).is_some()))
    }

    pub fn kill(&self, i: usize) {
        let idx = self.nodes[i].idx;
        with(|k| {
            k.fault("kill");
            k.kill_node(idx)
        });
    }

    pub fn sigint(&self, i: usize) {
        let idx = self.nodes[i].idx;
        with(|k| {
            k.fault("sigint");
            k.nodes[idx as usize].sigint_pending = true
        });
    }

    /// Wait for the node to exit by itself (after SIGINT).
    pub fn wait_exit(&self, i: usize, timeout_ms: u64) -> bool {
        let idx = self.nodes[i].idx;
        wait_cond(timeout_ms, 1, || with(|k| !k.nodes[idx as usize].alive))
    }

    /// Force a declutter tick (background snapshot) on node i; returns once it has run.
    pub fn declutter_tick(&self, i: usize, timeout_ms: u64) -> bool {
        let idx = self.nodes[i].idx;
        let key = format!("timer_fired_{}", idx);
        let skey = format!("timer_started_{}", idx);
        // a tick released earlier (declutter_kick) may still be pending or running: let it finish first,
        // so that the tick requested now is a complete cycle of its own
        if !wait_cond(timeout_ms, 1, || with(|k| k.nodes[idx as usize].declutter_kick == 0 && k.ext.get(&skey).copied().unwrap_or(0) == k.ext.get(&key).copied().unwrap_or(0))) {
            return false;
        }
        let before = with(|k| {
            k.nodes[idx as usize].declutter_kick += 1;
            k.ext.get(&key).copied().unwrap_or(0)
        });
        wait_cond(timeout_ms, 1, || with(|k| k.ext.get(&key).copied().unwrap_or(0) > before))
    }

    /// Wait until no declutter tick is pending or running on node i.
    pub fn wait_declutter_idle(&self, i: usize, timeout_ms: u64) -> bool {
        let idx = self.nodes[i].idx;
        let key = format!("timer_fired_{}", idx);
        let skey = format!("timer_started_{}", idx);
        wait_cond(timeout_ms, 1, || with(|k| k.nodes[idx as usize].declutter_kick == 0 && k.ext.get(&skey).copied().unwrap_or(0) == k.ext.get(&key).copied().unwrap_or(0)))
    }

    /// Fire-and-forget declutter tick.
    pub fn declutter_kick(&self, i: usize) {
        let idx = self.nodes[i].idx;
        with(|k| k.nodes[idx as usize].declutter_kick += 1);
    }

    pub fn inter_node_lines(&self) -> u64 {
        with(|k| k.net.inter_node_lines)
    }

    /// Quiescence: no inter-node line for `window_ms` of simulated time.  Returns false when the
    /// cluster is still talking after `max_ms`.
    pub fn settle(&self, window_ms: u64, max_ms: u64) -> bool {
        let deadline = kernel::now() + max_ms * MS;
        loop {
            let a = self.inter_node_lines();
            let t0 = kernel::now();
            // sleep in slices so that we can notice activity early
            let mut quiet = true;
            let bytes0 = with(|k| k.net.inter_node_bytes);
            while kernel::now() < t0 + window_ms * MS {
                // wake up early when the nodes exchange an absurd volume (messages growing every round)
                let until = kernel::now() + (window_ms * MS / 4).max(MS);
                kernel::wait(
                    Wait::Any(vec![Wait::Until(until), Wait::Cond(std::rc::Rc::new(move |k: &kernel::Kernel| if k.net.inter_node_bytes > bytes0 + (8 << 20) { kernel::Ready::Yes } else { kernel::Ready::No }))]),
                    true,
                );
                if with(|k| k.net.inter_node_bytes) > bytes0 + (8 << 20) {
                    return false;
                }
                if self.inter_node_lines() != a {
                    quiet = false;
                    break;
                }
            }
            if quiet && !with(|k| k.net.in_flight_inter_node()) {
                return true;
            }
            if kernel::now() >= deadline {
                return false;
            }
        }
    }
}

// ------------------------------------------------------------------------------------------------
// direct sessions (what the unit tests do: Client + process_request), run as tasks of the node
// ------------------------------------------------------------------------------------------------

#[derive(Clone, Debug, PartialEq)]
pub enum Resp {
    Ok,
    Set { key: String, value: String },
    Value { key: String, value: String, version: i32 },
    Error(String),
    VersionError { old_version: i32, version: i32 },
}

impl Resp {
    pub fn from(r: &Response) -> Resp {
        match r {
            Response::Ok {} => Resp::Ok,
            Response::Set { key, value } => Resp::Set { key: key.clone(), value: value.clone() },
            Response::Value { key, value, version } => {
                Resp::Value { key: key.clone(), value: value.clone(), version: *version }
            }
            Response::Error { msg } => Resp::Error(msg.clone()),
            Response::VersionError { old_version, version, .. } => {
                Resp::VersionError { old_version: *old_version, version: *version }
            }
        }
    }
    pub fn is_err(&self) -> bool {
        matches!(self, Resp::Error(_) | Resp::VersionError { .. })
    }
}

pub struct Session {
    pub client: Client,
    pub rx: futures::channel::mpsc::Receiver<String>,
    pub dbs: Arc<Databases>,
    /// node whose clock/disk context applies while this session executes a command from a
    /// harness task (a direct session stands for a connection-handler thread of that node)
    pub node: Option<u32>,
}

fn node_of_dbs(d: &Arc<Databases>) -> Option<u32> {
    REG.with(|r| r.borrow().iter().find(|(_, v)| Arc::ptr_eq(v, d)).map(|(k, _)| k.0))
}

#[derive(Clone, Debug)]
pub struct Reply {
    pub resp: Resp,
    pub msgs: Vec<String>,
}

impl Session {
    pub fn new(dbs: &Arc<Databases>) -> Session {
        let (client, rx) = Client::new_empty_and_receiver();
        Session { client, rx, dbs: dbs.clone(), node: node_of_dbs(dbs) }
    }
    pub fn drain(&mut self) -> Vec<String> {
        let mut v = Vec::new();
        while let Ok(Some(m)) = self.rx.try_next() {
            v.push(m);
        }
        v
    }
    pub fn exec(&mut self, line: &str) -> Reply {
        let me = kernel::me();
        let is_node_task = with(|k| k.meta(me).and_then(|m| m.node).is_some());
        if !is_node_task {
            with(|k| k.ctx_node = self.node);
        }
        // a handler thread that panics dies alone: record it like the spawn facade does
        let dbs = self.dbs.clone();
        let client = &mut self.client;
        let r = std::panic::catch_unwind(std::panic::AssertUnwindSafe(|| process_request(line, &dbs, client)));
        let resp = match r {
            Ok(r) => Resp::from(&r),
            Err(p) => {
                if kernel::tearing_down() {
                    std::panic::resume_unwind(p);
                }
                let (msg, loc) = kernel::take_last_panic().unwrap_or_else(|| ("<panic>".into(), "?".into()));
                let node = self.node;
                with(|k| {
                    let at = k.now;
                    let gen = node.map(|n| k.nodes[n as usize].gen).unwrap_or(0);
                    k.panics.push(nundb_verif_rt::kernel::PanicRecord {
                        node,
                        gen,
                        task: "direct-session".into(),
                        message: msg.clone(),
                        location: loc.clone(),
                        at_ns: at,
                    });
                });
                Resp::Error(format!("PANIC {} at {}", msg, loc))
            }
        };
        let msgs = self.drain();
        Reply { resp, msgs }
    }
    /// admin session with a database selected
    pub fn admin(dbs: &Arc<Databases>) -> Session {
        let mut s = Session::new(dbs);
        s.exec(&format!("auth {} {}", USER, PWD));
        s
    }
    /// the transport's disconnect path (tcp_ops/ws_ops/http_ops all do exactly this)
    pub fn disconnect(mut self) {
        process_request("unwatch-all", &self.dbs, &mut self.client);
        self.client.left(&self.dbs);
    }
}

/// Spawn a task that belongs to node i (same clock, dies with the node).
pub fn spawn_on_node<T: Send + 'static>(
    w: &World,
    i: usize,
    name: &str,
    f: impl FnOnce() -> T + Send + 'static,
) -> JoinHandle<T> {
    let idx = w.nodes[i].idx;
    let gen = with(|k| k.nodes[idx as usize].gen);
    spawn_with_meta(Some(TaskMeta { node: Some(idx), gen, name: name.to_string(), ord: 0 }), f)
}

pub fn spawn_harness<T: Send + 'static>(name: &str, f: impl FnOnce() -> T + Send + 'static) -> JoinHandle<T> {
    spawn_with_meta(Some(TaskMeta { node: None, gen: 0, name: name.to_string(), ord: 0 }), f)
}

// ------------------------------------------------------------------------------------------------
// wire clients
// ------------------------------------------------------------------------------------------------

pub struct WireClient {
    pub stream: Option<TcpStream>,
    buf: Vec<u8>,
    sentinel: u64,
    pub eof: bool,
}

impl WireClient {
    pub fn connect(addr: &str) -> Option<WireClient> {
        match TcpStream::connect(addr) {
            Ok(s) => Some(WireClient { stream: Some(s), buf: Vec::new(), sentinel: 0, eof: false }),
            Err(_) => None,
        }
    }
    pub fn send_raw(&mut self, bytes: &[u8]) -> bool {
        match self.stream.as_mut() {
            Some(s) => s.write_all(bytes).is_ok(),
            None => false,
        }
    }
    pub fn send_line(&mut self, line: &str) -> bool {
        let mut v = line.as_bytes().to_vec();
        v.push(b'\n');
        self.send_raw(&v)
    }
    /// Next full line (without the newline), waiting at most `timeout_ms` of simulated time.
    pub fn recv_line(&mut self, timeout_ms: u64) -> Option<String> {
        let deadline = kernel::now() + timeout_ms * MS;
        loop {
            if let Some(i) = self.buf.iter().position(|b| *b == b'\n') {
                let l: Vec<u8> = self.buf.drain(..=i).collect();
                return Some(String::from_utf8_lossy(&l[..l.len() - 1]).to_string());
            }
            if self.eof {
                return None;
            }
            let ep = match self.stream.as_ref() {
                Some(s) => s.endpoint(),
                None => return None,
            };
            if !frame::pump(ep, &mut self.buf) {
                self.eof = true;
                continue;
            }
            if self.buf.iter().any(|b| *b == b'\n') {
                continue;
            }
            if kernel::now() >= deadline {
                return None;
            }
            let rx = with(|k| k.net.endpoints[ep].rx);
            kernel::wait(Wait::Any(vec![Wait::PipeReadable(rx), Wait::Until(deadline)]), false);
        }
    }
    /// Like `request`, but returns the lines received so far when the sentinel's reply does not arrive
    /// (nun-db drops a reply when the session's channel already holds more than 100 undelivered
    /// messages); the flag says whether the sentinel was seen.
    pub fn request_lossy(&mut self, line: &str, timeout_ms: u64) -> (Vec<String>, bool) {
        self.sentinel += 1;
        let mark = format!("zz{}", self.sentinel);
        let mut out = Vec::new();
        if !self.send_line(line) || !self.send_line(&mark) {
            return (out, false);
        }
        let want = format!("error unknown command: {} ", mark);
        loop {
            match self.recv_line(timeout_ms) {
                Some(l) => {
                    if l == want {
                        return (out, true);
                    }
                    out.push(l);
                }
                None => return (out, false),
            }
        }
    }
    /// Read the greeting the server sends on connect.
    pub fn greeting(&mut self, timeout_ms: u64) -> bool {
        matches!(self.recv_line(timeout_ms), Some(l) if l.trim() == "ok")
    }
    /// Send `line` followed by a unique unknown command; collect every line up to the sentinel's
    /// error reply.  Returns None on timeout / disconnect.
    pub fn request(&mut self, line: &str, timeout_ms: u64) -> Option<Vec<String>> {
        self.sentinel += 1;
        let mark = format!("zz{}", self.sentinel);
        if !self.send_line(line) || !self.send_line(&mark) {
            return None;
        }
        let want = format!("error unknown command: {} ", mark);
        let mut out = Vec::new();
        loop {
            match self.recv_line(timeout_ms) {
                Some(l) => {
                    if l == want {
                        return Some(out);
                    }
                    out.push(l);
                }
                None => return None,
            }
        }
    }
    pub fn close(&mut self) {
        self.stream = None;
    }
}

/// One HTTP request (facade framing: one frame out, one frame back).
pub fn http_request(addr: &str, body: &str, timeout_ms: u64) -> Option<String> {
    let mut s = TcpStream::connect(addr).ok()?;
    let mut v = Vec::new();
    v.extend_from_slice(&(body.len() as u32).to_be_bytes());
    v.extend_from_slice(body.as_bytes());
    s.write_all(&v).ok()?;
    let mut buf = Vec::new();
    let deadline = kernel::now() + timeout_ms * MS;
    match frame::read_frame_blocking(s.endpoint(), &mut buf, Some(deadline)) {
        Some(Frame::Data(d)) => Some(String::from_utf8_lossy(&d).to_string()),
        _ => None,
    }
}

pub struct WsClient {
    stream: Option<TcpStream>,
    buf: Vec<u8>,
    sentinel: u64,
}
impl WsClient {
    pub fn connect(addr: &str) -> Option<WsClient> {
        TcpStream::connect(addr).ok().map(|s| WsClient { stream: Some(s), buf: Vec::new(), sentinel: 0 })
    }
    pub fn send(&mut self, msg: &str) -> bool {
        match self.stream.as_ref() {
            Some(s) => frame::write_frame(s.endpoint(), msg.as_bytes()).is_ok(),
            None => false,
        }
    }
    /// a data frame with arbitrary bytes (a binary frame when they are not UTF-8)
    pub fn send_bytes(&mut self, bytes: &[u8]) -> bool {
        match self.stream.as_ref() {
            Some(s) => frame::write_frame(s.endpoint(), bytes).is_ok(),
            None => false,
        }
    }
    pub fn recv(&mut self, timeout_ms: u64) -> Option<String> {
        let ep = self.stream.as_ref()?.endpoint();
        let deadline = kernel::now() + timeout_ms * MS;
        match frame::read_frame_blocking(ep, &mut self.buf, Some(deadline)) {
            Some(Frame::Data(d)) => Some(String::from_utf8_lossy(&d).to_string()),
            _ => None,
        }
    }
    /// Send one frame followed by a unique unknown command; collect every frame up to the
    /// sentinel's error reply.
    pub fn request(&mut self, msg: &str, timeout_ms: u64) -> Option<Vec<String>> {
        self.sentinel += 1;
        let mark = format!("zw{}", self.sentinel);
        if !self.send(msg) || !self.send(&mark) {
            return None;
        }
        let want = format!("error unknown command: {} \n", mark);
        let mut out = Vec::new();
        loop {
            match self.recv(timeout_ms) {
                Some(m) => {
                    if m == want {
                        return Some(out);
                    }
                    out.push(m);
                }
                None => return None,
            }
        }
    }
    pub fn close_clean(&mut self) {
        if let Some(s) = self.stream.as_ref() {
            let _ = frame::write_close(s.endpoint());
        }
        self.stream = None;
    }
    pub fn drop_abruptly(&mut self) {
        self.stream = None;
    }
    /// end the connection with a frame the protocol layer rejects (handler: on_error, then on_close)
    pub fn fail_with_broken_frame(&mut self) {
        if let Some(s) = self.stream.as_ref() {
            let _ = frame::write_broken(s.endpoint());
        }
        self.stream = None;
    }
}

#[allow(dead_code)]
pub fn unused(_: &mut dyn Read) {}
pub const ONE_SEC_NS: u64 = SEC;

// ------------------------------------------------------------------------------------------------
// clusters
// ------------------------------------------------------------------------------------------------

pub fn election_timeout_ms() -> u64 {
    std::env::var("NUN_ELECTION_TIMEOUT").ok().and_then(|s| s.parse().ok()).unwrap_or(1000)
}

#[derive(Clone, Debug, PartialEq)]
pub struct NodeView {
    pub alive: bool,
    pub role: String,
    pub process_id: u128,
    /// member name -> (role, connected/self)
    pub members: Vec<(String, String, String)>,
}

impl World {
    pub fn view(&self, i: usize) -> NodeView {
        if !self.alive(i) {
            return NodeView { alive: false, role: "dead".into(), process_id: 0, members: vec![] };
        }
        let dbs = match self.dbs(i) {
            Some(d) => d,
            None => return NodeView { alive: true, role: "booting".into(), process_id: 0, members: vec![] },
        };
        let role = format!("{}", dbs.get_role());
        let mut members = Vec::new();
        // never block on the cluster lock: a handler stuck in an election may hold it for a while
        if let Ok(cs) = dbs.cluster_state.try_lock() {
            if let Ok(m) = cs.members.try_lock() {
                for (name, mem) in m.iter() {
                    let conn = if mem.is_self(&dbs) {
                        "self"
                    } else if mem.sender.is_some() {
                        "connected"
                    } else {
                        "disconnected"
                    };
                    members.push((name.clone(), format!("{}", mem.role), conn.to_string()));
                }
            }
        }
        members.sort();
        NodeView { alive: true, role, process_id: dbs.process_id, members }
    }

    /// Index of the single primary if the live nodes agree on a well-formed cluster, else a reason.
    pub fn agreed_primary(&self) -> Result<usize, String> {
        let n = self.nodes.len();
        let views: Vec<NodeView> = (0..n).map(|i| self.view(i)).collect();
        let live: Vec<usize> = (0..n).filter(|i| views[*i].alive).collect();
        if live.is_empty() {
            return Err("no live node".into());
        }
        let primaries: Vec<usize> = live.iter().cloned().filter(|i| views[*i].role == "Primary").collect();
        if primaries.len() != 1 {
            return Err(format!("{} primaries among live nodes: roles {:?}", primaries.len(), live.iter().map(|i| views[*i].role.clone()).collect::<Vec<_>>()));
        }
        let p = primaries[0];
        for &i in live.iter() {
            if i != p && views[i].role != "Secoundary" {
                return Err(format!("node {} is {}", i + 1, views[i].role));
            }
            // every live node names the same primary in its member table
            let named: Vec<&(String, String, String)> = views[i].members.iter().filter(|m| m.1 == "Primary").collect();
            if named.len() != 1 || named[0].0 != self.nodes[p].tcp {
                return Err(format!("node {} names primaries {:?}, expected {}", i + 1, named, self.nodes[p].tcp));
            }
            // and knows every other live node
            for &j in live.iter() {
                if !views[i].members.iter().any(|m| m.0 == self.nodes[j].tcp) {
                    return Err(format!("node {} does not list node {}", i + 1, j + 1));
                }
            }
        }
        Ok(p)
    }

    /// Boot all nodes one after the other (gap_ms apart) and wait until the cluster is formed and
    /// quiet.  Returns the primary's index.
    pub fn form_cluster(&self, gap_ms: u64, max_ms: u64) -> Option<usize> {
        let addrs = self.all_tcp();
        for i in 0..self.nodes.len() {
            self.boot(i, &addrs);
            if !self.wait_listening(i, 2_000) {
                return None;
            }
            sleep_ms(gap_ms);
        }
        let deadline = kernel::now() + max_ms * MS;
        loop {
            if self.agreed_primary().is_ok() && self.settle(300, 2_000) && self.agreed_primary().is_ok() {
                return self.agreed_primary().ok();
            }
            if kernel::now() >= deadline {
                return None;
            }
            sleep_ms(100);
        }
    }
}
