//! Minimal in-process S3-compatible server on a real loopback socket (the real aws-sdk-s3 + tokio
//! talk to it from inside a simulated task; each SDK call is one atomic step of the simulation).
//! PUT / GET object, ListObjectsV2, with a fault plan keyed by (object key, attempt number) so that
//! faults do not depend on socket timing.
use std::collections::BTreeMap;
use std::io::{Read, Write};
use std::net::{TcpListener, TcpStream};
use std::sync::{Arc, Mutex, OnceLock};

#[derive(Default)]
pub struct Store {
    pub objects: BTreeMap<String, Vec<u8>>,
    /// PUTs of keys containing .0 fail for attempts listed in .1 (1-based), or always if .2
    pub put_faults: Vec<(String, Vec<u32>, bool)>,
    pub get_fail_once: Vec<String>,
    /// every GET of keys containing one of these fails
    pub get_fail_always: Vec<String>,
    pub put_attempts: BTreeMap<String, u32>,
    pub get_attempts: BTreeMap<String, u32>,
    pub puts_ok: u64,
    pub puts_failed: u64,
    pub gets_ok: u64,
    pub gets_failed: u64,
    pub lists: u64,
}

static STORE: OnceLock<Arc<Mutex<Store>>> = OnceLock::new();
static PORT: OnceLock<u16> = OnceLock::new();

pub fn store() -> Arc<Mutex<Store>> {
    STORE.get_or_init(|| Arc::new(Mutex::new(Store::default()))).clone()
}

/// Start the stub once per process; returns the endpoint URL.
pub fn ensure_started() -> String {
    let port = *PORT.get_or_init(|| {
        let listener = TcpListener::bind("127.0.0.1:0").expect("bind s3 stub");
        let port = listener.local_addr().unwrap().port();
        let st = store();
        std::thread::Builder::new()
            .name("s3stub".into())
            .spawn(move || {
                for conn in listener.incoming() {
                    if let Ok(c) = conn {
                        let st = st.clone();
                        std::thread::spawn(move || serve(c, st));
                    }
                }
            })
            .expect("spawn s3 stub");
        port
    });
    format!("http://127.0.0.1:{}", port)
}

pub fn reset() {
    let s = store();
    let mut g = s.lock().unwrap();
    *g = Store::default();
}

fn read_until_headers(c: &mut TcpStream, buf: &mut Vec<u8>) -> Option<usize> {
    let mut tmp = [0u8; 4096];
    loop {
        if let Some(i) = find(buf, b"\r\n\r\n") {
            return Some(i + 4);
        }
        match c.read(&mut tmp) {
            Ok(0) | Err(_) => return None,
            Ok(n) => buf.extend_from_slice(&tmp[..n]),
        }
    }
}

fn find(h: &[u8], n: &[u8]) -> Option<usize> {
    h.windows(n.len()).position(|w| w == n)
}

fn decode_chunked(raw: &[u8]) -> Option<Vec<u8>> {
    // "<hex>[;ext]\r\n<data>\r\n" ... "0[;ext]\r\n" trailers "\r\n"
    let mut out = Vec::new();
    let mut i = 0;
    loop {
        let e = find(&raw[i..], b"\r\n")? + i;
        let line = std::str::from_utf8(&raw[i..e]).ok()?;
        let size = usize::from_str_radix(line.split(';').next()?.trim(), 16).ok()?;
        i = e + 2;
        if size == 0 {
            return Some(out);
        }
        if raw.len() < i + size + 2 {
            return None;
        }
        out.extend_from_slice(&raw[i..i + size]);
        i += size + 2;
    }
}

fn serve(mut c: TcpStream, st: Arc<Mutex<Store>>) {
    let _ = c.set_nodelay(true);
    let mut buf: Vec<u8> = Vec::new();
    loop {
        let hend = match read_until_headers(&mut c, &mut buf) {
            Some(h) => h,
            None => return,
        };
        let head = String::from_utf8_lossy(&buf[..hend]).to_string();
        let mut lines = head.split("\r\n");
        let reqline = lines.next().unwrap_or("").to_string();
        let mut headers: BTreeMap<String, String> = BTreeMap::new();
        for l in lines {
            if let Some((k, v)) = l.split_once(':') {
                headers.insert(k.trim().to_lowercase(), v.trim().to_string());
            }
        }
        let mut parts = reqline.split(' ');
        let method = parts.next().unwrap_or("").to_string();
        let target = parts.next().unwrap_or("").to_string();
        let chunked_te = headers.get("transfer-encoding").map(|v| v.contains("chunked")).unwrap_or(false);
        let aws_chunked = headers.get("content-encoding").map(|v| v.contains("aws-chunked")).unwrap_or(false)
            || headers.get("x-amz-content-sha256").map(|v| v.starts_with("STREAMING")).unwrap_or(false);
        let clen: Option<usize> = headers.get("content-length").and_then(|v| v.parse().ok());
        let mut tmp = [0u8; 8192];
        let body: Vec<u8> = if let Some(n) = clen {
            while buf.len() < hend + n {
                match c.read(&mut tmp) {
                    Ok(0) | Err(_) => return,
                    Ok(k) => buf.extend_from_slice(&tmp[..k]),
                }
            }
            let raw = buf[hend..hend + n].to_vec();
            buf.drain(..hend + n);
            if aws_chunked {
                decode_chunked(&raw).unwrap_or(raw)
            } else {
                raw
            }
        } else if chunked_te {
            loop {
                if let Some(end) = find(&buf[hend..], b"\r\n0\r\n").or_else(|| if buf[hend..].starts_with(b"0\r\n") { Some(0) } else { None }) {
                    // wait for the final CRLF after the trailers
                    if let Some(fin) = find(&buf[hend + end..], b"\r\n\r\n") {
                        let raw = buf[hend..hend + end + fin + 4].to_vec();
                        buf.drain(..hend + end + fin + 4);
                        break decode_chunked(&raw).unwrap_or_default();
                    }
                }
                match c.read(&mut tmp) {
                    Ok(0) | Err(_) => return,
                    Ok(k) => buf.extend_from_slice(&tmp[..k]),
                }
            }
        } else {
            buf.drain(..hend);
            Vec::new()
        };
        let (path, query) = match target.split_once('?') {
            Some((p, q)) => (p.to_string(), q.to_string()),
            None => (target.clone(), String::new()),
        };
        let path = percent_decode(&path);
        // path style: /<bucket>/<key...>
        let mut segs = path.trim_start_matches('/').splitn(2, '/');
        let _bucket = segs.next().unwrap_or("");
        let key = segs.next().unwrap_or("").to_string();
        let (status, extra_headers, resp_body): (&str, String, Vec<u8>) = {
            let mut g = st.lock().unwrap();
            match method.as_str() {
                "PUT" if !key.is_empty() => {
                    let n = {
                        let e = g.put_attempts.entry(key.clone()).or_insert(0);
                        *e += 1;
                        *e
                    };
                    let fail = g.put_faults.iter().any(|(pat, attempts, always)| key.contains(pat.as_str()) && (*always || attempts.contains(&n)));
                    if fail {
                        g.puts_failed += 1;
                        ("500 Internal Server Error", String::new(), b"<?xml version=\"1.0\" encoding=\"UTF-8\"?><Error><Code>InternalError</Code><Message>injected</Message></Error>".to_vec())
                    } else {
                        g.objects.insert(key.clone(), body);
                        g.puts_ok += 1;
                        ("200 OK", "ETag: \"0123456789abcdef0123456789abcdef\"\r\n".to_string(), Vec::new())
                    }
                }
                "GET" if !key.is_empty() => {
                    let n = {
                        let e = g.get_attempts.entry(key.clone()).or_insert(0);
                        *e += 1;
                        *e
                    };
                    let fail = (n == 1 && g.get_fail_once.iter().any(|pat| key.contains(pat.as_str()))) || g.get_fail_always.iter().any(|pat| key.contains(pat.as_str()));
                    if fail {
                        g.gets_failed += 1;
                        ("500 Internal Server Error", String::new(), b"<?xml version=\"1.0\" encoding=\"UTF-8\"?><Error><Code>InternalError</Code><Message>injected</Message></Error>".to_vec())
                    } else {
                        match g.objects.get(&key).cloned() {
                            Some(data) => {
                                g.gets_ok += 1;
                                ("200 OK", "ETag: \"0123456789abcdef0123456789abcdef\"\r\nLast-Modified: Thu, 24 Sep 2026 00:00:00 GMT\r\nContent-Type: binary/octet-stream\r\n".to_string(), data)
                            }
                            None => ("404 Not Found", String::new(), format!("<?xml version=\"1.0\" encoding=\"UTF-8\"?><Error><Code>NoSuchKey</Code><Message>The specified key does not exist.</Message><Key>{}</Key></Error>", key).into_bytes()),
                        }
                    }
                }
                "GET" => {
                    // ListObjectsV2
                    g.lists += 1;
                    let prefix = query
                        .split('&')
                        .find_map(|kv| kv.strip_prefix("prefix="))
                        .map(percent_decode)
                        .unwrap_or_default();
                    let mut xml = String::from("<?xml version=\"1.0\" encoding=\"UTF-8\"?><ListBucketResult xmlns=\"http://s3.amazonaws.com/doc/2006-03-01/\"><Name>nun-db</Name>");
                    xml.push_str(&format!("<Prefix>{}</Prefix><MaxKeys>1000</MaxKeys><IsTruncated>false</IsTruncated>", prefix));
                    let mut count = 0;
                    for (k, v) in g.objects.iter() {
                        if k.starts_with(&prefix) {
                            count += 1;
                            xml.push_str(&format!(
                                "<Contents><Key>{}</Key><LastModified>2026-09-24T00:00:00.000Z</LastModified><ETag>&quot;0&quot;</ETag><Size>{}</Size><StorageClass>STANDARD</StorageClass></Contents>",
                                k,
                                v.len()
                            ));
                        }
                    }
                    xml.push_str(&format!("<KeyCount>{}</KeyCount></ListBucketResult>", count));
                    ("200 OK", "Content-Type: application/xml\r\n".to_string(), xml.into_bytes())
                }
                _ => ("400 Bad Request", String::new(), Vec::new()),
            }
        };
        let resp = format!(
            "HTTP/1.1 {}\r\nx-amz-request-id: stub\r\n{}Content-Length: {}\r\nConnection: keep-alive\r\n\r\n",
            status,
            extra_headers,
            resp_body.len()
        );
        if c.write_all(resp.as_bytes()).is_err() || c.write_all(&resp_body).is_err() {
            return;
        }
        let _ = c.flush();
    }
}

fn percent_decode(s: &str) -> String {
    let b = s.as_bytes();
    let mut out = Vec::new();
    let mut i = 0;
    while i < b.len() {
        if b[i] == b'%' && i + 2 < b.len() + 0 && i + 2 <= b.len() - 1 + 1 {
            if let Ok(v) = u8::from_str_radix(&s[i + 1..(i + 3).min(s.len())], 16) {
                out.push(v);
                i += 3;
                continue;
            }
        }
        out.push(if b[i] == b'+' { b' ' } else { b[i] });
        i += 1;
    }
    String::from_utf8_lossy(&out).to_string()
}
