//! C19 -- newer-strategy databases accept every write; the last applied one wins.
use crate::common::*;
use crate::kv::*;
use crate::props::c04::{diff_nodes, dump_node};
use crate::world::*;
use nundb::bo::Databases;
use nundb_verif_rt::kernel::{self, Rng};
use nundb_verif_rt::sim::{run_sim, SimConfig};
use nundb_verif_rt::stdx::sync::Arc;
use serde::{Deserialize, Serialize};
use serde_json::{json, Value as Json};
use std::sync::atomic::{AtomicU64, Ordering};
use std::sync::{Arc as StdArc, Mutex as StdMutex};

pub struct C19;

#[derive(Clone, Debug, Serialize, Deserialize, PartialEq)]
pub enum Op {
    /// plain write
    Set { key: String, val: String },
    /// versioned write with an absolute version
    SetV { key: String, ver: i32, val: String },
    /// background snapshot between writes (re-stamps the op ids of the stored values)
    Snapshot,
}

#[derive(Clone, Debug, Serialize, Deserialize)]
pub struct Program {
    /// which database: "n" = created with the newer strategy, "$admin" = the administrative database
    pub db: String,
    pub clients: Vec<Vec<Op>>,
    pub nodes: usize,
    /// scenario `legacy` (db = "l"): the strategy the database was created with before its metadata file
    /// went missing (a data directory written by a release that had no metadata file)
    #[serde(default)]
    pub legacy_strategy: String,
    /// scenario `legacy`: the node was stopped with SIGINT (else killed)
    #[serde(default)]
    pub legacy_clean_stop: bool,
    /// a session has registered as arbiter of the database (a legal command on any database) before the
    /// writes start: "" = nobody, "arbiter", or "watch" (= `watch $conflicts`); the session stays or leaves
    #[serde(default)]
    pub arbiter_session: String,
}

const KEYS: [&str; 2] = ["ka", "kb"];

fn gen_ops(rng: &mut Rng, n: usize, uniq: &mut u32, snapshots: bool) -> Vec<Op> {
    let mut v = Vec::new();
    for _ in 0..n {
        let key = KEYS[rng.below(2) as usize].to_string();
        *uniq += 1;
        let val = format!("w{}", uniq);
        v.push(match rng.below(10) {
            0..=2 => Op::Set { key, val },
            3..=8 => Op::SetV { key, ver: rng.range(0, 5) as i32, val },
            _ => {
                if snapshots {
                    Op::Snapshot
                } else {
                    Op::Set { key, val }
                }
            }
        });
    }
    v
}

fn gen(rng: &mut Rng, scenario: &str) -> Program {
    let mut p = gen_base(rng, scenario);
    if rng.chance(1, 4) {
        p.arbiter_session = ["arbiter", "watch", "arbiter-left"][rng.below(3) as usize].to_string();
    }
    p
}

fn gen_base(rng: &mut Rng, scenario: &str) -> Program {
    let mut uniq = 0;
    match scenario {
        "concurrent" => {
            let na = rng.range(1, 3) as usize;
            let a = gen_ops(rng, na, &mut uniq, false);
            let nb = rng.range(1, 3) as usize;
            let b = gen_ops(rng, nb, &mut uniq, false);
            Program { db: "n".into(), clients: vec![a, b], nodes: 1, legacy_strategy: String::new(), legacy_clean_stop: false, arbiter_session: String::new() }
        }
        "replicated" => {
            let na = rng.range(1, 6) as usize;
            let a = gen_ops(rng, na, &mut uniq, false);
            Program { db: "n".into(), clients: vec![a], nodes: rng.range(2, 3) as usize, legacy_strategy: String::new(), legacy_clean_stop: false, arbiter_session: String::new() }
        }
        "legacy" => {
            let na = rng.range(1, 6) as usize;
            let a = gen_ops(rng, na, &mut uniq, true);
            let strat = ["none", "arbiter", "newer", ""][rng.below(4) as usize].to_string();
            Program { db: "l".into(), clients: vec![a], nodes: 1, legacy_strategy: strat, legacy_clean_stop: rng.chance(1, 2), arbiter_session: String::new() }
        }
        _ => {
            let na = rng.range(1, 6) as usize;
            let a = gen_ops(rng, na, &mut uniq, true);
            Program { db: if rng.chance(1, 4) { "$admin".into() } else { "n".into() }, clients: vec![a], nodes: 1, legacy_strategy: String::new(), legacy_clean_stop: false, arbiter_session: String::new() }
        }
    }
}

fn line(op: &Op) -> String {
    match op {
        Op::Set { key, val } => format!("set {} {}", key, val),
        Op::SetV { key, ver, val } => format!("set-safe {} {} {}", key, ver, val),
        Op::Snapshot => "snapshot false".into(),
    }
}

/// The write as the storage API sees it (`db_ops::set_key_value`): its Response::Set names the value
/// that is stored now -- the transports reduce it to a bare `ok`.
fn api_write(dbs: &Arc<Databases>, dbname: &str, op: &Op) -> Resp {
    let map = dbs.map.read().unwrap();
    let db = match map.get(&dbname.to_string()) {
        Some(d) => d,
        None => return Resp::Error("no such database".into()),
    };
    let (key, val, ver) = match op {
        Op::Set { key, val } => (key.clone(), val.clone(), -1),
        Op::SetV { key, ver, val } => (key.clone(), val.clone(), *ver),
        Op::Snapshot => return Resp::Ok,
    };
    let r = nundb::db_ops::set_key_value(key, val, ver, db, dbs);
    Resp::from(&r)
}

#[derive(Clone, Debug)]
struct Rec {
    client: usize,
    op: Op,
    invoke: u64,
    ret: u64,
    resp: Resp,
}

struct Outcome {
    setup: Result<(), String>,
    violations: Vec<Violation>,
    writes: u64,
    stale_writes: u64,
}

/// run `f` with the session's node as clock/disk context (direct API calls from the harness task)
fn with_ctx<R>(s: &Session, f: impl FnOnce() -> R) -> R {
    nundb_verif_rt::kernel::with(|k| k.ctx_node = s.node);
    f()
}

fn select(s: &mut Session, db: &str) -> bool {
    if db == "$admin" {
        !s.exec(&format!("use-db $admin {}", PWD)).resp.is_err()
    } else {
        !s.exec(&format!("use-db {} tok", db)).resp.is_err()
    }
}

fn sequential(w: &World, dbs: &Arc<Databases>, prog: &Program, out: &mut Outcome, through_protocol: bool) {
    let mut s = Session::admin(dbs);
    if !select(&mut s, &prog.db) {
        out.setup = Err("setup_unstable".into());
        return;
    }
    let mut obs = Session::admin(dbs);
    select(&mut obs, &prog.db);
    for k in KEYS.iter() {
        obs.exec(&format!("watch {}", k));
    }
    obs.drain();
    let mut snapshotted = false;
    for (i, op) in prog.clients[0].iter().enumerate() {
        if let Op::Snapshot = op {
            s.exec("snapshot false");
            w.declutter_tick(0, 10_000);
            snapshotted = true;
            continue;
        }
        let (key, val, ver) = match op {
            Op::Set { key, val } => (key.clone(), val.clone(), None),
            Op::SetV { key, ver, val } => (key.clone(), val.clone(), Some(*ver)),
            Op::Snapshot => unreachable!(),
        };
        let before = parse_value_version(&s.exec(&format!("get-safe {}", key)).msgs);
        let existed = s.exec("keys").msgs.iter().any(|m| m.trim_end().trim_start_matches("keys ").split(',').any(|x| x == key));
        obs.drain();
        let resp = if through_protocol {
            // replication happens in process_request; its reply is only ok / error
            let r = s.exec(&line(op));
            if r.resp.is_err() {
                r.resp
            } else {
                Resp::Set { key: key.clone(), value: parse_value_version(&s.exec(&format!("get-safe {}", key)).msgs).map(|x| x.1).unwrap_or_default() }
            }
        } else {
            with_ctx(&s, || api_write(dbs, &prog.db, op))
        };
        out.writes += 1;
        let after = parse_value_version(&s.exec(&format!("get-safe {}", key)).msgs);
        let notes = obs.drain();
        let stale = ver.map(|v| existed && before.as_ref().map(|b| v < b.0).unwrap_or(false)).unwrap_or(false);
        if stale {
            out.stale_writes += 1;
        }
        let shape = format!("{}:{}{}", if ver.is_some() { if stale { "stale-versioned" } else { "versioned" } } else { "plain" }, if snapshotted { "after-snapshot" } else { "no-snapshot" }, if prog.db == "$admin" { ":admin-db" } else if prog.db == "l" { ":restored-without-metadata" } else { "" });
        match &resp {
            Resp::Set { value, .. } => {
                let stored = after.as_ref().map(|a| a.1.clone()).unwrap_or_default();
                if value != &stored {
                    out.violations.push(Violation::new("reply-not-stored-value", shape.clone(), format!("op #{} `{}`: the reply names {:?} but the key holds {:?}", i, line(op), value, stored)));
                }
                // sequentially this write is the most recently issued change: it must win
                if stored != val {
                    out.violations.push(Violation::new("latest-write-lost", shape.clone(), format!("op #{} `{}` (key was {:?}): the key holds {:?} afterwards", i, line(op), before, stored)));
                }
            }
            other => {
                out.violations.push(Violation::new("write-refused", shape.clone(), format!("op #{} `{}` (key was {:?}) => {:?}", i, line(op), before, other)));
            }
        }
        if let (Some(b), Some(a), true) = (before.as_ref(), after.as_ref(), existed) {
            if a.0 < b.0 {
                out.violations.push(Violation::new("version-decreased", shape.clone(), format!("op #{} `{}`: version {} -> {}", i, line(op), b.0, a.0)));
            }
        }
        let changed = before.as_ref().map(|b| b.1.clone()) != after.as_ref().map(|a| a.1.clone()) || !existed;
        let notified = notes.iter().any(|n| n.starts_with(&format!("changed {} ", key)));
        if changed != notified {
            out.violations.push(Violation::new(
                if changed { "change-not-notified" } else { "notified-without-change" },
                shape,
                format!("op #{} `{}`: value {:?} -> {:?}, watcher got {:?}", i, line(op), before, after, notes),
            ));
        }
    }
}

fn concurrent(w: &World, dbs: &Arc<Databases>, prog: &Program, out: &mut Outcome) {
    let mut admin = Session::admin(dbs);
    select(&mut admin, &prog.db);
    for k in KEYS.iter() {
        admin.exec(&format!("set {} i0", k));
        admin.exec(&format!("set {} i1", k));
    }
    // an observer hears the version every stored write was given
    let mut obs = Session::admin(dbs);
    select(&mut obs, &prog.db);
    for k in KEYS.iter() {
        obs.exec(&format!("watch {}", k));
    }
    obs.drain();
    let seq = StdArc::new(AtomicU64::new(1));
    let recs: StdArc<StdMutex<Vec<Rec>>> = StdArc::new(StdMutex::new(Vec::new()));
    let mut hs = Vec::new();
    for (ci, ops) in prog.clients.iter().cloned().enumerate() {
        let (dbs, seq, recs, db) = (dbs.clone(), seq.clone(), recs.clone(), prog.db.clone());
        hs.push(spawn_on_node(w, 0, &format!("c{}", ci), move || {
            let mut s = Session::admin(&dbs);
            select(&mut s, &db);
            for op in ops {
                if let Op::Snapshot = op {
                    continue;
                }
                let invoke = seq.fetch_add(1, Ordering::SeqCst);
                let resp = api_write(&dbs, &db, &op);
                let ret = seq.fetch_add(1, Ordering::SeqCst);
                recs.lock().unwrap().push(Rec { client: ci, op, invoke, ret, resp });
            }
        }));
    }
    for h in hs {
        let _ = h.join();
    }
    let recs = recs.lock().unwrap().clone();
    out.writes += recs.len() as u64;
    // the stored version only grows: the key never ends below a version that was announced for it
    let notes = obs.drain();
    for key in KEYS.iter() {
        let announced: Vec<i32> = notes
            .iter()
            .filter_map(|n| n.trim_end().strip_prefix("changed-version ").map(|r| r.to_string()))
            .filter_map(|r| {
                let mut it = r.splitn(3, ' ');
                if it.next() == Some(*key) {
                    it.next().and_then(|v| v.parse::<i32>().ok())
                } else {
                    None
                }
            })
            .collect();
        if let (Some(maxv), Some((fver, fval))) = (announced.iter().max(), parse_value_version(&admin.exec(&format!("get-safe {}", key)).msgs)) {
            if fver < *maxv {
                out.violations.push(Violation::new(
                    "version-decreased",
                    "concurrent".to_string(),
                    format!("key {}: versions announced to a watcher {:?}, the key ends at version {} ({:?})", key, announced, fver, fval),
                ));
            }
        }
    }
    for key in KEYS.iter() {
        let rs: Vec<&Rec> = recs
            .iter()
            .filter(|r| match &r.op {
                Op::Set { key: k, .. } | Op::SetV { key: k, .. } => k == key,
                _ => false,
            })
            .collect();
        if rs.is_empty() {
            continue;
        }
        let fin = parse_value_version(&admin.exec(&format!("get-safe {}", key)).msgs).map(|x| x.1).unwrap_or_default();
        for r in rs.iter() {
            if !matches!(r.resp, Resp::Set { .. }) {
                out.violations.push(Violation::new("write-refused", "concurrent".to_string(), format!("client {} `{}` => {:?}", r.client, line(&r.op), r.resp)));
            }
        }
        // linearizable: each write either stores its value or keeps the current one, and its reply is
        // the value stored at its linearisation point
        fn go(cur: &str, rs: &[&Rec], used: u32, fin: &str) -> bool {
            if used.count_ones() as usize == rs.len() {
                return cur == fin;
            }
            for i in 0..rs.len() {
                if used & (1 << i) != 0 {
                    continue;
                }
                if (0..rs.len()).any(|j| j != i && used & (1 << j) == 0 && rs[j].ret < rs[i].invoke) {
                    continue;
                }
                let val = match &rs[i].op {
                    Op::Set { val, .. } | Op::SetV { val, .. } => val.clone(),
                    _ => String::new(),
                };
                let reply = match &rs[i].resp {
                    Resp::Set { value, .. } => value.clone(),
                    _ => continue,
                };
                for stored in [val.as_str(), cur] {
                    if reply == stored && go(stored, rs, used | (1 << i), fin) {
                        return true;
                    }
                }
            }
            false
        }
        if rs.len() <= 10 && !go("i1", &rs, 0, &fin) {
            out.violations.push(Violation::new(
                "not-linearizable",
                "concurrent".to_string(),
                format!(
                    "key {}: history {:?}; final {:?}: no order in which every write stores its value or keeps the current one and replies with the stored value",
                    key,
                    rs.iter().map(|r| format!("c{}[{}..{}] {} => {:?}", r.client, r.invoke, r.ret, line(&r.op), r.resp)).collect::<Vec<_>>(),
                    fin
                ),
            ));
        }
    }
}

fn execute(prog: Program, scenario: String) -> Outcome {
    let mut out = Outcome { setup: Err("boot".into()), violations: vec![], writes: 0, stale_writes: 0 };
    let w = World::new(prog.nodes);
    if prog.nodes == 1 {
        w.boot(0, "");
        if !w.wait_primary(0, 5_000) {
            out.setup = Err("setup_unstable".into());
            return out;
        }
    } else if w.form_cluster(1_300, 15_000) != Some(0) {
        out.setup = Err("setup_unstable".into());
        return out;
    }
    let dbs = match w.dbs(0) {
        Some(d) => d,
        None => return out,
    };
    {
        let mut a = Session::admin(&dbs);
        if a.exec("create-db n tok newer").resp.is_err() {
            return out;
        }
    }
    if prog.nodes > 1 && !w.settle(200, 5_000) {
        out.setup = Err("setup_unstable".into());
        return out;
    }
    let dbs = if scenario == "legacy" {
        // a database restored without metadata: created (with whatever strategy), persisted, the node
        // stopped, and the data directory is one that has no metadata file for it
        {
            let mut a = Session::admin(&dbs);
            let created = if prog.legacy_strategy.is_empty() { a.exec("create-db l tok") } else { a.exec(&format!("create-db l tok {}", prog.legacy_strategy)) };
            if created.resp.is_err() || a.exec("use-db l tok").resp.is_err() {
                return out;
            }
            for k in KEYS.iter() {
                a.exec(&format!("set {} p0", k));
                a.exec(&format!("set {} p1", k));
            }
            a.exec("snapshot false");
            if !w.declutter_tick(0, 10_000) {
                out.setup = Err("setup_unstable".into());
                return out;
            }
            // the other database of the node is persisted as well (it keeps its metadata file and its id)
            if a.exec("use-db n tok").resp.is_err() {
                return out;
            }
            a.exec("set other 1");
            a.exec("snapshot false");
            if !w.declutter_tick(0, 10_000) {
                out.setup = Err("setup_unstable".into());
                return out;
            }
        }
        if prog.legacy_clean_stop {
            w.sigint(0);
            if !w.wait_exit(0, 20_000) {
                out.setup = Err("setup_unstable".into());
                return out;
            }
        } else {
            w.kill(0);
        }
        let idx = w.nodes[0].idx;
        let removed = kernel::with(|k| k.nodes[idx as usize].disk.unlink("dbs/l-nun.madadata"));
        if !removed {
            out.setup = Err("harness: metadata file of the legacy database not found".into());
            return out;
        }
        kernel::with(|k| k.fault("metadata_file_absent"));
        w.boot(0, "");
        if !w.wait_primary(0, 10_000) {
            out.setup = Err("setup_unstable".into());
            return out;
        }
        match w.dbs(0) {
            Some(d) => d,
            None => return out,
        }
    } else {
        dbs
    };
    out.setup = Ok(());
    // somebody registered as arbiter of the database: on a newer database that changes nothing
    let mut _arbiter_session: Option<Session> = None;
    if !prog.arbiter_session.is_empty() {
        let mut a = Session::admin(&dbs);
        if select(&mut a, &prog.db) {
            a.exec(if prog.arbiter_session == "watch" { "watch $conflicts" } else { "arbiter" });
            if prog.arbiter_session == "arbiter-left" {
                a.exec("unwatch-all");
                a.disconnect();
            } else {
                _arbiter_session = Some(a);
            }
        }
    }
    match scenario.as_str() {
        "concurrent" => concurrent(&w, &dbs, &prog, &mut out),
        "replicated" => {
            sequential(&w, &dbs, &prog, &mut out, true);
            if !w.settle(300, 8_000) {
                out.violations.push(Violation::new("no-quiescence", "replicated".to_string(), "cluster still talking 8 s after the last write".to_string()));
                return out;
            }
            let pd = dump_node(&dbs);
            for i in 1..prog.nodes {
                if let Some(d) = w.dbs(i) {
                    let od = dump_node(&d);
                    if let Some((field, db, key, desc)) = diff_nodes(&pd, &od) {
                        if db == "n" && field != "version" {
                            out.violations.push(Violation::new("replica-diverged", field, format!("node n{}: {} (key {})", i + 1, desc, key)));
                        }
                    }
                }
            }
        }
        _ => sequential(&w, &dbs, &prog, &mut out, false),
    }
    out
}

impl Property for C19 {
    fn id(&self) -> &'static str {
        "C19"
    }
    fn scenarios(&self) -> Vec<(&'static str, u32)> {
        vec![("sequential", 2), ("concurrent", 2), ("replicated", 1), ("legacy", 1)]
    }
    fn budget(&self) -> (u64, u64) {
        (100_000, 2_000_000)
    }
    fn rule(&self) -> &'static str {
        "1-6 plain and versioned writes (versions 0-5: below, at and above the current one, every value unique) to 1-2 keys of a database created with the newer strategy (or of $admin, or -- scenario legacy -- of a database created with any strategy, persisted, and restored after a kill / clean stop from a data directory that has no metadata file for it): sequential with background snapshots in between (reply = stored value = this write's value, no refusal, version never decreases, watcher notified iff the value changed); from two concurrent direct sessions under lock-level interleavings (history linearizable against 'store your value or keep the current one, reply with what is stored'); and replicated from the primary to 1-2 secondaries (replicas hold the primary's values at quiescence). Non-trivial: at least one stale versioned write (sequential/replicated) or two writes to one key overlapped (concurrent). distinct = distinct (program, task-switch sequence)."
    }
    fn assumptions(&self) -> Vec<String> {
        vec!["between overlapping writes either may win; 'most recently issued' is asserted for non-overlapping writes issued on one node; replica versions are not compared here (C04)".into()]
    }
    fn components(&self) -> Json {
        json!({"real": ["db_ops::apply_change_to_db_try_fix_conflicts", "consensus_ops Newer branch", "bo::Database::set_value / notify_watchers", "snapshot store-back (re-stamps op ids)", "replication loop + links (replicated scenario)"],
               "simulated": ["threads/locks", "clock", "disk", "TCP"], "stub": []})
    }
    fn run_one(&self, scenario: &str, ctx: &RunCtx) -> RunReport {
        let mut rng = Rng::new(ctx.seed);
        let prog: Program = match &ctx.program {
            Some(p) => serde_json::from_value(p.clone()).expect("program"),
            None => gen(&mut rng, scenario),
        };
        let mut cfg = SimConfig::new(ctx.seed ^ 0xc19);
        cfg.policy = policy_for(Rng::new(ctx.seed ^ 0x9011c7).next_u64());
        cfg.trace = ctx.trace;
        cfg.max_steps = 6_000_000;
        let p2 = prog.clone();
        let sc = scenario.to_string();
        let outcome = run_sim(cfg, move || execute(p2, sc));
        clear_registry();
        let mut rep = RunReport { seed: ctx.seed, scenario: scenario.to_string(), ..Default::default() };
        rep.program = serde_json::to_value(&prog).unwrap();
        rep.absorb_kernel(&outcome.kernel);
        if let Some(p) = outcome.harness_panic {
            rep.harness_error = Some(p);
            return rep;
        }
        let out = match outcome.result {
            Some(o) => o,
            None => {
                rep.discarded = Some("truncated".into());
                return rep;
            }
        };
        if let Err(e) = out.setup {
            rep.discarded = Some(e);
            return rep;
        }
        for p in outcome.kernel.panics.iter() {
            rep.violations.push(Violation::new("panic", p.location.rsplit('/').next().unwrap_or("?").to_string(), format!("{} at {}", p.message, p.location)));
        }
        rep.violations.extend(out.violations);
        rep.nontrivial = if scenario == "concurrent" { out.writes >= 2 } else { out.stale_writes > 0 };
        rep.counters.insert("writes".into(), out.writes);
        rep.counters.insert("stale_versioned_writes".into(), out.stale_writes);
        rep.case_hash = kernel::mix(hash_str(&rep.program.to_string()), outcome.kernel.switch_hash);
        rep
    }
    fn shrink(&self, _scenario: &str, program: &Json) -> Vec<Json> {
        let p: Program = match serde_json::from_value(program.clone()) {
            Ok(p) => p,
            Err(_) => return vec![],
        };
        let mut out = Vec::new();
        for c in 0..p.clients.len() {
            for i in 0..p.clients[c].len() {
                let mut q = p.clone();
                q.clients[c].remove(i);
                out.push(serde_json::to_value(&q).unwrap());
            }
        }
        out
    }
}
