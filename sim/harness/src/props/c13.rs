//! C13 -- arbiter databases never apply or lose a conflicting write silently.
use crate::common::*;
use crate::kv::*;
use crate::world::*;
use nundb::bo::Databases;
use nundb_verif_rt::kernel::{self, Rng};
use nundb_verif_rt::sim::{run_sim, SimConfig};
use nundb_verif_rt::stdx::sync::Arc;
use serde::{Deserialize, Serialize};
use serde_json::{json, Value as Json};
use std::collections::{BTreeMap, VecDeque};

pub struct C13;

#[derive(Clone, Debug, Serialize, Deserialize, PartialEq)]
pub enum Op {
    /// plain write
    Set { key: String, val: String },
    /// versioned write: delta relative to the version get-safe reports (negative = stale = conflict)
    SetV { key: String, delta: i32, val: String },
    ArbiterConnect,
    ArbiterDisconnect,
    /// single node: a completed snapshot, then the node is killed and started again (pending conflicts and
    /// the keys waiting for the arbiter are part of the persisted state; no arbiter is connected afterwards)
    Restart,
    /// the arbiter answers the oldest (or, `newest`, the most recent) notice it holds; `take_new` =
    /// resolve with the conflicting value
    Resolve {
        take_new: bool,
        #[serde(default)]
        newest: bool,
    },
}

#[derive(Clone, Debug, Serialize, Deserialize)]
pub struct Program {
    pub ops: Vec<Op>,
    pub nodes: usize,
    /// node the arbiter client connects to / node the writers use (cluster scenario)
    /// after registering, the (administrator) arbiter session also selects and registers for a second database:
    /// its resolutions still name the database of the conflict
    #[serde(default)]
    pub arbiter_elsewhere: bool,
    pub arbiter_node: usize,
    pub writer_node: usize,
}

// (one key name is the beginning of the other: whatever is looked up by key name must not confuse them)
const KEYS: [&str; 2] = ["ka", "kab"];

fn gen(rng: &mut Rng, cluster: bool) -> Program {
    let n = rng.range(2, 10) as usize;
    let mut ops = Vec::new();
    let mut uniq = 0;
    if rng.chance(3, 4) {
        ops.push(Op::ArbiterConnect);
    }
    for _ in 0..n {
        let key = KEYS[rng.below(if cluster { 1 } else { 2 }) as usize].to_string();
        uniq += 1;
        let val = format!("w{}", uniq);
        ops.push(match rng.below(12) {
            0 | 1 => Op::Set { key, val },
            2 | 3 => Op::SetV { key, delta: 0, val },
            4..=6 => Op::SetV { key, delta: -1, val },
            7 => Op::ArbiterConnect,
            8 => {
                if cluster {
                    Op::Resolve { take_new: true, newest: false }
                } else if rng.chance(1, 2) {
                    Op::Restart
                } else {
                    Op::ArbiterDisconnect
                }
            }
            _ => Op::Resolve { take_new: rng.chance(2, 3), newest: rng.chance(1, 3) },
        });
    }
    // one write (at most) carries the value the keys start with: while the key still holds it -- in
    // particular while an earlier conflict on the key is pending -- that write must queue like any other
    if rng.chance(1, 3) {
        let writes: Vec<usize> = ops.iter().enumerate().filter(|(_, o)| matches!(o, Op::Set { .. } | Op::SetV { .. })).map(|(i, _)| i).take(4).collect();
        if !writes.is_empty() {
            let i = writes[rng.below(writes.len() as u64) as usize];
            match &mut ops[i] {
                Op::Set { val, .. } | Op::SetV { val, .. } => *val = "base1".to_string(),
                _ => {}
            }
        }
    }
    // finish: an arbiter is present and answers everything
    ops.push(Op::ArbiterConnect);
    for _ in 0..8 {
        ops.push(Op::Resolve { take_new: rng.chance(1, 2), newest: false });
    }
    let nodes = if cluster { rng.range(2, 3) as usize } else { 1 };
    Program { ops, nodes, arbiter_elsewhere: rng.chance(1, 3), arbiter_node: rng.below(nodes as u64) as usize, writer_node: if cluster && rng.chance(1, 3) { rng.below(nodes as u64) as usize } else { 0 } }
}

#[derive(Clone, Debug)]
struct Notice {
    opp_id: String,
    db: String,
    version: String,
    key: String,
    value: String,
    raw: String,
}

fn parse_notice(m: &str) -> Option<Notice> {
    // resolve <opp_id> <db> <version> <key> <old value or conflict key> <value>
    let t = m.trim_end_matches('\n');
    let p: Vec<&str> = t.splitn(7, ' ').collect();
    if p.len() < 7 || p[0] != "resolve" {
        return None;
    }
    Some(Notice { opp_id: p[1].into(), db: p[2].into(), version: p[3].into(), key: p[4].into(), value: p[6].into(), raw: t.to_string() })
}

#[derive(Clone, Debug)]
struct Pending {
    value: String,
}

struct Outcome {
    setup: Result<(), String>,
    violations: Vec<Violation>,
    conflicts: u64,
    resolved: u64,
}

fn pending_conflict_entries(admin: &mut Session, key: &str) -> Vec<(String, String)> {
    // ($conflicts key, value) pairs whose value still starts with "resolve " (= unresolved)
    let names = parse_keys(&admin.exec(&format!("keys $conflicts_{}", key)).msgs).unwrap_or_default();
    let mut v = Vec::new();
    for n in names {
        // the records of this key only: `$conflicts_<key>_<operation id>` (another key's name may begin with this one's)
        let own = n.strip_prefix(&format!("$conflicts_{}_", key)).map(|rest| !rest.is_empty() && rest.chars().all(|c| c.is_ascii_digit())).unwrap_or(false);
        if !own {
            continue;
        }
        let val = parse_value(&admin.exec(&format!("get {}", n)).msgs).unwrap_or_default();
        v.push((n, val));
    }
    v
}

fn execute(prog: Program) -> Outcome {
    let mut out = Outcome { setup: Err("boot".into()), violations: vec![], conflicts: 0, resolved: 0 };
    let w = World::new(prog.nodes);
    if prog.nodes == 1 {
        w.boot(0, "");
        if !w.wait_primary(0, 5_000) {
            out.setup = Err("setup_unstable".into());
            return out;
        }
    } else if w.form_cluster(1_300, 15_000) != Some(0) {
        out.setup = Err("setup_unstable".into());
        return out;
    }
    let mut dbs: Vec<Arc<Databases>> = match (0..prog.nodes).map(|i| w.dbs(i)).collect::<Option<Vec<_>>>() {
        Some(d) => d,
        None => return out,
    };
    let cluster = prog.nodes > 1;
    let mut padmin = Session::admin(&dbs[0]);
    if padmin.exec("create-db a tok arbiter").resp.is_err() {
        return out;
    }
    if cluster && !w.settle(200, 5_000) {
        out.setup = Err("setup_unstable".into());
        return out;
    }
    if prog.arbiter_elsewhere {
        padmin.exec("create-db b tokb arbiter");
        if cluster && !w.settle(200, 5_000) {
            out.setup = Err("setup_unstable".into());
            return out;
        }
    }
    padmin.exec("use-db a tok");
    for k in KEYS.iter() {
        padmin.exec(&format!("set {} base", k));
        padmin.exec(&format!("set {} base1", k));
    }
    if cluster && !w.settle(200, 5_000) {
        out.setup = Err("setup_unstable".into());
        return out;
    }
    out.setup = Ok(());
    let wn = prog.writer_node.min(prog.nodes - 1);
    let an = prog.arbiter_node.min(prog.nodes - 1);
    let mut writer = Session::admin(&dbs[wn]);
    writer.exec("use-db a tok");
    let mut admin_on_writer = Session::admin(&dbs[wn]);
    admin_on_writer.exec("use-db a tok");
    let mut arbiter: Option<Session> = None;
    let mut ever_registered = false;
    let mut inbox: VecDeque<Notice> = VecDeque::new();
    // model
    let mut value: BTreeMap<String, String> = KEYS.iter().map(|k| (k.to_string(), "base1".to_string())).collect();
    let mut queue: BTreeMap<String, VecDeque<Pending>> = KEYS.iter().map(|k| (k.to_string(), VecDeque::new())).collect();
    let loc = if !cluster {
        "single".to_string()
    } else {
        format!("arbiter@{}:writer@{}", if an == 0 { "primary" } else { "secondary" }, if wn == 0 { "primary" } else { "secondary" })
    };
    macro_rules! settle {
        () => {
            if cluster {
                if !w.settle(200, 6_000) {
                    out.violations.push(Violation::new("no-quiescence", loc.clone(), "cluster still talking after 6 s".to_string()));
                    return out;
                }
            }
        };
    }
    let collect = |arb: &mut Option<Session>, inbox: &mut VecDeque<Notice>| {
        if let Some(a) = arb.as_mut() {
            for m in a.drain() {
                if let Some(n) = parse_notice(&m) {
                    inbox.push_back(n);
                }
            }
        }
    };
    for (i, op) in prog.ops.iter().enumerate() {
        match op {
            Op::ArbiterConnect => {
                if arbiter.is_none() {
                    let mut a = Session::admin(&dbs[an]);
                    a.exec("use-db a tok");
                    let mut r = a.exec("arbiter");
                    if prog.arbiter_elsewhere {
                        let mut m2 = a.exec("use-db b tokb").msgs;
                        m2.extend(a.exec("arbiter").msgs);
                        r.msgs.extend(m2);
                    }
                    inbox.clear();
                    for m in r.msgs.iter() {
                        if let Some(n) = parse_notice(m) {
                            inbox.push_back(n);
                        }
                    }
                    // records of conflicts that were answered already are not notices: a registering arbiter is not sent them
                    let answered: Vec<&String> = r.msgs.iter().filter(|m| m.starts_with("resolved")).collect();
                    if !answered.is_empty() {
                        out.violations.push(Violation::new(
                            "registration-redelivery-wrong",
                            format!("{}:answered-records", loc),
                            format!("op #{}: the newly registered arbiter was sent records of conflicts that are resolved already: {:?}", i, answered),
                        ));
                    }
                    arbiter = Some(a);
                    ever_registered = true;
                    // a newly registered arbiter is sent exactly the unresolved conflicts
                    if !cluster || an == 0 {
                        let want: usize = queue.values().map(|q| q.len()).sum();
                        if inbox.len() != want {
                            out.violations.push(Violation::new(
                                "registration-redelivery-wrong",
                                format!("{}:{}", loc, if inbox.len() < want { "too-few" } else { "too-many" }),
                                format!("op #{}: {} unresolved conflicts, the newly registered arbiter was sent {}: {:?}", i, want, inbox.len(), inbox.iter().map(|n| n.raw.clone()).collect::<Vec<_>>()),
                            ));
                        }
                    }
                }
            }
            Op::ArbiterDisconnect => {
                if let Some(a) = arbiter.take() {
                    a.disconnect();
                    inbox.clear();
                }
            }
            Op::Restart => {
                if cluster {
                    continue;
                }
                padmin.exec(if prog.arbiter_elsewhere { "snapshot false a|b" } else { "snapshot false" });
                if !w.declutter_tick(0, 20_000) {
                    out.violations.push(Violation::new("snapshot-stuck", loc.clone(), format!("op #{}: background snapshot did not finish", i)));
                    return out;
                }
                nundb_verif_rt::kernel::with(|k| k.fault("restart_with_pending_conflicts"));
                arbiter = None;
                inbox.clear();
                w.kill(0);
                w.boot(0, "");
                if !w.wait_primary(0, 8_000) {
                    let panic = nundb_verif_rt::kernel::with(|k| k.panics.last().map(|p| format!("{} at {}", p.message, p.location)));
                    out.violations.push(Violation::new("restart-failed", loc.clone(), format!("op #{}: node did not come back ({:?})", i, panic)));
                    return out;
                }
                dbs[0] = match w.dbs(0) {
                    Some(d) => d,
                    None => return out,
                };
                padmin = Session::admin(&dbs[0]);
                padmin.exec("use-db a tok");
                writer = Session::admin(&dbs[0]);
                writer.exec("use-db a tok");
                admin_on_writer = Session::admin(&dbs[0]);
                admin_on_writer.exec("use-db a tok");
                // nobody is registered as arbiter of the restarted node
                ever_registered = false;
                // what was pending is still pending
                for key in KEYS.iter() {
                    let entries = pending_conflict_entries(&mut padmin, key);
                    let unresolved = entries.iter().filter(|e| e.1.starts_with("resolve ")).count();
                    if unresolved != queue[*key].len() {
                        out.violations.push(Violation::new(
                            "conflict-lost-by-restart",
                            format!("{}:depth{}", loc, queue[*key].len().min(3)),
                            format!("op #{}: {} conflicts were pending on {} at the completed snapshot, after the restart the $conflicts_ entries are {:?}", i, queue[*key].len(), key, entries),
                        ));
                    }
                }
            }
            Op::Set { key, val } | Op::SetV { key, val, .. } => {
                let cur = parse_value_version(&admin_on_writer.exec(&format!("get-safe {}", key)).msgs);
                let (cver, cval) = cur.clone().unwrap_or((0, String::new()));
                let in_conflict = !queue[key].is_empty();
                let (line, conflicting) = match op {
                    Op::Set { .. } => (format!("set {} {}", key, val), in_conflict),
                    Op::SetV { delta, .. } => {
                        let v = if in_conflict { 1 } else { (cver + delta).max(0) };
                        (format!("set-safe {} {} {}", key, v, val), in_conflict || v < cver)
                    }
                    _ => unreachable!(),
                };
                let r = writer.exec(&line);
                settle!();
                collect(&mut arbiter, &mut inbox);
                let after = parse_value_version(&admin_on_writer.exec(&format!("get-safe {}", key)).msgs).map(|x| x.1).unwrap_or_default();
                if !conflicting {
                    if r.resp.is_err() {
                        out.violations.push(Violation::new("write-refused", format!("{}:non-conflicting", loc), format!("op #{} `{}` (key at version {}) => {:?}", i, line, cver, r.resp)));
                    } else {
                        value.insert(key.clone(), val.clone());
                        if after != *val && wn == 0 {
                            out.violations.push(Violation::new("write-not-applied", format!("{}:non-conflicting", loc), format!("op #{} `{}` acknowledged, key holds {:?}", i, line, after)));
                        }
                    }
                    continue;
                }
                out.conflicts += 1;
                // conflicting: never applied silently, never dropped silently
                if after != cval && wn == 0 {
                    out.violations.push(Violation::new(
                        "conflict-applied",
                        format!("{}:depth{}", loc, queue[key].len().min(2)),
                        format!("op #{} `{}` conflicts (key at version {}, {} queued) but the key changed {:?} -> {:?}", i, line, cver, queue[key].len(), cval, after),
                    ));
                }
                // (an error reply is not required when the write is queued: the statement only forbids
                //  applying or dropping it silently)
                if !ever_registered && !r.resp.is_err() {
                    out.violations.push(Violation::new(
                        "conflict-dropped-silently",
                        format!("{}:no-arbiter", loc),
                        format!("op #{} `{}` conflicts, no arbiter ever registered (it cannot be queued) and the reply is {:?}", i, line, r.resp),
                    ));
                }
                if !ever_registered {
                    // refused, nothing recorded
                    continue;
                }
                queue.get_mut(key).unwrap().push_back(Pending { value: val.clone() });
                if wn == 0 {
                    let entries = pending_conflict_entries(&mut padmin, key);
                    let unresolved = entries.iter().filter(|e| e.1.starts_with("resolve ")).count();
                    if unresolved != queue[key].len() {
                        out.violations.push(Violation::new(
                            "conflict-not-recorded",
                            format!("{}:depth{}", loc, queue[key].len().min(3)),
                            format!("op #{} `{}`: {} conflicts should be pending on {}, $conflicts_ entries: {:?}", i, line, queue[key].len(), key, entries),
                        ));
                    }
                }
                if arbiter.is_some() && (!cluster || (an == 0 && wn == 0)) {
                    let got = inbox.iter().filter(|n| n.value == *val && &n.key == key).count();
                    if got != 1 {
                        out.violations.push(Violation::new(
                            "notice-delivery-wrong",
                            format!("{}:{}", loc, if got == 0 { "missing" } else { "duplicated" }),
                            format!("op #{} `{}`: the registered arbiter received {} notices for it: {:?}", i, line, got, inbox.iter().map(|n| n.raw.clone()).collect::<Vec<_>>()),
                        ));
                    }
                }
            }
            Op::Resolve { take_new, newest } => {
                collect(&mut arbiter, &mut inbox);
                let a = match arbiter.as_mut() {
                    Some(a) => a,
                    None => continue,
                };
                // arbiters are free to answer in any order
                let n = match if *newest { inbox.pop_back() } else { inbox.pop_front() } {
                    Some(n) => n,
                    None => continue,
                };
                let q = queue.get_mut(&n.key).unwrap();
                let qpos = match q.iter().position(|p| p.value == n.value) {
                    Some(p) => p,
                    None => continue,
                };
                let chosen = if *take_new { n.value.clone() } else { format!("kept{}", i) };
                let line = format!("resolve {} {} {} {} {}", n.opp_id, n.db, n.key, n.version, chosen);
                let r = a.exec(&line);
                settle!();
                out.resolved += 1;
                q.remove(qpos);
                value.insert(n.key.clone(), chosen.clone());
                if r.resp.is_err() {
                    out.violations.push(Violation::new("resolve-refused", loc.clone(), format!("op #{} `{}` => {:?}", i, line, r.resp)));
                }
                let after = parse_value_version(&padmin.exec(&format!("get-safe {}", n.key)).msgs);
                if after.as_ref().map(|x| x.1.clone()) != Some(chosen.clone()) {
                    out.violations.push(Violation::new(
                        "resolution-not-applied",
                        format!("{}:remaining{}", loc, q.len().min(2)),
                        format!("op #{} `{}`: the key holds {:?} on the primary ({} conflicts still queued)", i, line, after, q.len()),
                    ));
                }
            }
        }
        if !out.violations.is_empty() {
            return out;
        }
    }
    // everything was resolved (the program ends with an arbiter answering all notices)
    collect(&mut arbiter, &mut inbox);
    let left: usize = queue.values().map(|q| q.len()).sum();
    if left == 0 && out.conflicts > 0 && ever_registered {
        settle!();
        for key in KEYS.iter() {
            let entries = pending_conflict_entries(&mut padmin, key);
            let unresolved: Vec<&(String, String)> = entries.iter().filter(|e| e.1.starts_with("resolve ")).collect();
            if !unresolved.is_empty() {
                out.violations.push(Violation::new("still-pending-after-resolution", loc.clone(), format!("all conflicts on {} were resolved but {:?} is still unresolved", key, unresolved)));
            }
            // writable again
            let cur = parse_value_version(&padmin.exec(&format!("get-safe {}", key)).msgs);
            if let Some((ver, v)) = cur.clone() {
                if v != value[*key] {
                    out.violations.push(Violation::new("final-value-wrong", loc.clone(), format!("{}: last resolution/write was {:?}, the key holds {:?}", key, value[*key], v)));
                }
                if ver < 0 {
                    out.violations.push(Violation::new("still-in-conflict-state", loc.clone(), format!("{}: every conflict resolved but the key is at version {}", key, ver)));
                } else {
                    let r = padmin.exec(&format!("set-safe {} {} final", key, ver));
                    let now = parse_value_version(&padmin.exec(&format!("get-safe {}", key)).msgs).map(|x| x.1);
                    if r.resp.is_err() || now.as_deref() != Some("final") {
                        out.violations.push(Violation::new("not-writable-after-resolution", loc.clone(), format!("{}: `set-safe {} {} final` => {:?}, key holds {:?}", key, key, ver, r.resp, now)));
                    }
                    value.insert(key.to_string(), "final".into());
                }
            }
        }
        // a new arbiter gets nothing
        let mut a2 = Session::admin(&dbs[0]);
        a2.exec("use-db a tok");
        let r = a2.exec("arbiter");
        // (anything that looks like a notice or a record of one: `resolve <id> ...` or an already answered `resolved <value>`)
        let extra: Vec<&String> = r.msgs.iter().filter(|m| m.starts_with("resolve")).collect();
        if !extra.is_empty() {
            out.violations.push(Violation::new("registration-redelivery-wrong", format!("{}:too-many", loc), format!("nothing is pending but a new arbiter was sent {:?}", extra)));
        }
        if cluster {
            settle!();
            for i in 1..prog.nodes {
                let mut s = Session::admin(&dbs[i]);
                s.exec("use-db a tok");
                for key in KEYS.iter().take(1) {
                    let v = parse_value_version(&s.exec(&format!("get-safe {}", key)).msgs).map(|x| x.1);
                    if v.as_deref() != Some(value[*key].as_str()) {
                        out.violations.push(Violation::new("replica-diverged", loc.clone(), format!("node n{}: {} = {:?}, the primary holds {:?}", i + 1, key, v, value[*key])));
                    }
                }
            }
        }
    }
    out
}

impl Property for C13 {
    fn id(&self) -> &'static str {
        "C13"
    }
    fn scenarios(&self) -> Vec<(&'static str, u32)> {
        vec![("single-node", 3), ("cluster", 1)]
    }
    fn budget(&self) -> (u64, u64) {
        (15_000, 500_000)
    }
    fn rule(&self) -> &'static str {
        "sequences of 2-10 of {plain write, versioned write at the current version, versioned write with a stale version, arbiter connect, arbiter disconnect, arbiter resolves its oldest or its newest notice (with the conflicting value or another one)} on 1-2 keys of a database created with the arbiter strategy, always ending with an arbiter that answers every notice; single node (direct sessions) and 2-3 node clusters with the arbiter and the writer attached to the primary or a secondary. Conflict-queue model per key: a conflicting write is answered with an error, leaves the key unchanged, is refused outright only while no arbiter ever registered, otherwise is recorded under $conflicts_ and delivered once to the registered arbiter / re-delivered to the next one; after all resolutions the key holds the last resolution, is writable, nothing is pending, a new arbiter gets nothing, replicas agree. Non-trivial: at least one conflict was queued and resolved. distinct = distinct (program, task-switch sequence)."
    }
    fn components(&self) -> Json {
        json!({"real": ["consensus_ops (try_resolve_conflict_response, register_arbiter, resolve_conflit)", "process_request arbiter/resolve", "Change::next_version conflict cases", "replication of conflicts and resolves (cluster)"],
               "simulated": ["threads/locks", "TCP", "clock"], "stub": ["arbiter client = harness session answering notices in arrival order"]})
    }
    fn run_one(&self, scenario: &str, ctx: &RunCtx) -> RunReport {
        let mut rng = Rng::new(ctx.seed);
        let prog: Program = match &ctx.program {
            Some(p) => serde_json::from_value(p.clone()).expect("program"),
            None => gen(&mut rng, scenario == "cluster"),
        };
        let mut cfg = SimConfig::new(ctx.seed ^ 0xc13);
        cfg.policy = policy_for(Rng::new(ctx.seed ^ 0x9011c7).next_u64());
        cfg.trace = ctx.trace;
        cfg.max_steps = 8_000_000;
        let p2 = prog.clone();
        let outcome = run_sim(cfg, move || execute(p2));
        clear_registry();
        let mut rep = RunReport { seed: ctx.seed, scenario: scenario.to_string(), ..Default::default() };
        rep.program = serde_json::to_value(&prog).unwrap();
        rep.absorb_kernel(&outcome.kernel);
        if let Some(p) = outcome.harness_panic {
            rep.harness_error = Some(p);
            return rep;
        }
        let out = match outcome.result {
            Some(o) => o,
            None => {
                rep.discarded = Some("truncated".into());
                return rep;
            }
        };
        if let Err(e) = out.setup {
            rep.discarded = Some(e);
            return rep;
        }
        for p in outcome.kernel.panics.iter() {
            rep.violations.push(Violation::new("panic", p.location.rsplit('/').next().unwrap_or("?").to_string(), format!("{} at {}", p.message, p.location)));
        }
        rep.violations.extend(out.violations);
        rep.nontrivial = out.conflicts > 0 && out.resolved > 0;
        rep.counters.insert("conflicts_queued".into(), out.conflicts);
        rep.counters.insert("resolutions".into(), out.resolved);
        rep.case_hash = kernel::mix(hash_str(&rep.program.to_string()), outcome.kernel.switch_hash);
        rep
    }
    fn shrink(&self, _scenario: &str, program: &Json) -> Vec<Json> {
        let p: Program = match serde_json::from_value(program.clone()) {
            Ok(p) => p,
            Err(_) => return vec![],
        };
        let mut out = Vec::new();
        for i in 0..p.ops.len() {
            let mut q = p.clone();
            q.ops.remove(i);
            out.push(serde_json::to_value(&q).unwrap());
        }
        if p.nodes == 3 && p.arbiter_node < 2 && p.writer_node < 2 {
            let mut q = p.clone();
            q.nodes = 2;
            out.push(serde_json::to_value(&q).unwrap());
        }
        out
    }
}
