//! C16 -- after any restart the oplog is either discarded or still decodes correctly; database
//! and key identifiers stay unique while the log that refers to them is in use.
use crate::common::*;
use crate::props::c12::{scan, Rec};
use crate::world::*;
use nundb::bo::Databases;
use nundb::disk_ops::Oplog;
use nundb_verif_rt::kernel::{with, Rng};
use nundb_verif_rt::sim::{run_sim, SimConfig};
use nundb_verif_rt::stdx::sync::Arc;
use serde::{Deserialize, Serialize};
use serde_json::{json, Value as Json};
use std::collections::BTreeMap;

pub struct C16;

#[derive(Clone, Debug, Serialize, Deserialize, PartialEq)]
pub enum Op {
    CreateDb { db: usize },
    Write { db: usize, key: usize },
    Remove { db: usize, key: usize },
    /// snapshot the databases in the bit mask, then let the background snapshot complete
    Snapshot { mask: u8, reclaim: bool },
    RestartKill,
    RestartSigint,
    /// arm a kill at the k-th mutating disk call from now; the following operations run until it fires
    ArmCrash { k: u32, after: bool },
    /// two administrators create two databases at the same instant (the handlers interleave at lock granularity)
    CreateTwoAtOnce { a: usize, b: usize },
}

#[derive(Clone, Debug, Serialize, Deserialize)]
pub struct Program {
    pub ops: Vec<Op>,
}

const DBN: [&str; 4] = ["da", "db", "dc", "dd"];
const KEYS: [&str; 5] = ["k0", "k1", "k2", "k3", "k4"];

fn gen(rng: &mut Rng) -> Program {
    let n = rng.range(3, 18) as usize;
    let mut ops = Vec::new();
    let ndb = rng.range(1, 4) as usize;
    ops.push(Op::CreateDb { db: 0 });
    for _ in 0..n {
        ops.push(match rng.below(14) {
            0 => Op::CreateDb { db: rng.below(ndb as u64) as usize },
            1 => {
                if ndb >= 2 && rng.chance(1, 2) {
                    let a = rng.below(ndb as u64) as usize;
                    Op::CreateTwoAtOnce { a, b: (a + 1 + rng.below(ndb as u64 - 1) as usize) % ndb }
                } else {
                    Op::CreateDb { db: rng.below(ndb as u64) as usize }
                }
            }
            2..=5 => Op::Write { db: rng.below(ndb as u64) as usize, key: rng.below(5) as usize },
            6 => Op::Remove { db: rng.below(ndb as u64) as usize, key: rng.below(5) as usize },
            7 | 8 => Op::Snapshot { mask: rng.range(1, (1 << ndb) - 1) as u8, reclaim: rng.chance(1, 4) },
            9 | 10 => Op::RestartKill,
            11 => Op::RestartSigint,
            _ => Op::ArmCrash { k: rng.range(1, 25) as u32, after: rng.chance(1, 2) },
        });
    }
    // crash points inside the few disk calls of one write (key-id registration, oplog-valid flag, oplog
    // append): a third of the histories arm a kill 1-4 mutating calls ahead right before one of their writes
    if rng.chance(1, 3) {
        let writes: Vec<usize> = ops.iter().enumerate().filter(|(_, o)| matches!(o, Op::Write { .. } | Op::Remove { .. })).map(|(i, _)| i).collect();
        if !writes.is_empty() {
            let at = writes[rng.below(writes.len() as u64) as usize];
            ops.insert(at, Op::ArmCrash { k: rng.range(1, 4) as u32, after: rng.chance(1, 2) });
        }
    }
    // one history in five with two or more databases begins with the motif "the very first snapshot of a database dies
    // after a few disk calls; in the next life another database is created first, then the same name again; both are
    // snapshotted; restart": whatever the dead snapshot left behind must not give the re-created database an identifier
    // that meanwhile belongs to another one
    if ndb >= 2 && rng.chance(1, 5) {
        let a = 1 + rng.below(ndb as u64 - 1) as usize;
        let b = if a == ndb - 1 { 0 } else { a + 1 };
        let motif = vec![
            Op::CreateDb { db: a },
            // (the snapshot request itself is logged first: the kill lands among the first dozen disk calls)
            Op::ArmCrash { k: rng.range(1, 12) as u32, after: rng.chance(1, 2) },
            Op::Snapshot { mask: 1 << a, reclaim: false },
            Op::Write { db: 0, key: 0 },
            Op::CreateDb { db: b },
            Op::CreateDb { db: a },
            Op::Write { db: a, key: 1 },
            Op::Snapshot { mask: (1 << a) | (1 << b) | 1, reclaim: false },
            Op::Write { db: a, key: 3 },
            Op::RestartKill,
            Op::Write { db: a, key: 2 },
        ];
        for (j, m) in motif.into_iter().enumerate() {
            ops.insert(1 + j, m);
        }
    }
    ops.push(if rng.chance(1, 2) { Op::RestartKill } else { Op::RestartSigint });
    Program { ops }
}

/// id maps of the running node (white box)
fn id_maps(dbs: &Arc<Databases>) -> (BTreeMap<u64, String>, BTreeMap<u64, String>) {
    let a: BTreeMap<u64, String> = dbs.id_name_db_map.read().unwrap().iter().map(|(k, v)| (*k, v.clone())).collect();
    let b: BTreeMap<u64, String> = dbs.id_keys_map.read().unwrap().iter().map(|(k, v)| (*k, v.clone())).collect();
    (a, b)
}

fn check_unique_ids(dbs: &Arc<Databases>, when: &str, viols: &mut Vec<Violation>) {
    let map = dbs.map.read().unwrap();
    let mut by_id: BTreeMap<usize, Vec<String>> = BTreeMap::new();
    for (name, db) in map.iter() {
        by_id.entry(db.metadata.id).or_default().push(name.clone());
    }
    for (id, names) in by_id.iter() {
        if names.len() > 1 {
            let mut n = names.clone();
            n.sort();
            viols.push(Violation::new("duplicate-db-id", when.to_string(), format!("{}: databases {:?} share id {}", when, n, id)));
            break;
        }
    }
    // the table the oplog reader decodes database ids with must name, for every database, that very database
    {
        let idm = dbs.id_name_db_map.read().unwrap();
        for (name, db) in map.iter() {
            match idm.get(&(db.metadata.id as u64)) {
                Some(n) if n == name => {}
                other => {
                    viols.push(Violation::new(
                        "id-table-disagrees",
                        when.to_string(),
                        format!("{}: database {:?} has id {}, the id table maps that id to {:?}: its oplog records decode to that", when, name, db.metadata.id, other),
                    ));
                    break;
                }
            }
        }
    }
    drop(map);
    let km = dbs.keys_map.read().unwrap();
    let mut by_id: BTreeMap<u64, Vec<String>> = BTreeMap::new();
    for (k, id) in km.iter() {
        by_id.entry(*id).or_default().push(k.clone());
    }
    for (id, names) in by_id.iter() {
        if names.len() > 1 {
            viols.push(Violation::new("duplicate-key-id", when.to_string(), format!("{}: keys {:?} share id {}", when, names, id)));
            break;
        }
    }
}

struct Outcome {
    setup_ok: bool,
    violations: Vec<Violation>,
    restarts: u64,
    decoded_after_restart: u64,
    discarded_after_restart: u64,
    crash_restarts: u64,
}

fn execute(prog: Program) -> Outcome {
    let mut out = Outcome { setup_ok: false, violations: vec![], restarts: 0, decoded_after_restart: 0, discarded_after_restart: 0, crash_restarts: 0 };
    let w = World::new(1);
    let idx = w.nodes[0].idx;
    w.boot(0, "");
    if !w.wait_primary(0, 5_000) {
        return out;
    }
    let mut dbs = match w.dbs(0) {
        Some(d) => d,
        None => return out,
    };
    let mut admin = Session::admin(&dbs);
    out.setup_ok = true;
    // intent: record time -> (db name, key name or "" for create-db/snapshot records, kind)
    let mut intent: BTreeMap<(u64, u64, u64, u8), (String, String, u8)> = BTreeMap::new();
    let mut known: usize = 0; // number of records already attributed
    let mut cur: Option<usize> = None;
    let mut uniq = 0u32;
    let mut snapshotted: Vec<bool> = vec![false; 4];
    let mut armed = false;
    let mut last_restart_kind = "none";

    // databases that completed a snapshot (they persist: their records must keep decoding), and the records written for
    // them after that
    let solid_names: std::cell::RefCell<std::collections::BTreeSet<String>> = Default::default();
    let solid_recs: std::cell::RefCell<std::collections::BTreeSet<(u64, u64, u64, u8)>> = Default::default();
    // attribute records written since the last call, using the id maps of the *writing* lifetime
    let mut attribute = |dbs: &Arc<Databases>, known: &mut usize, intent: &mut BTreeMap<(u64, u64, u64, u8), (String, String, u8)>, viols: &mut Vec<Violation>| {
        let (all, _, _) = scan(idx);
        if all.len() < *known {
            // log was discarded meanwhile
            *known = 0;
            intent.clear();
            solid_recs.borrow_mut().clear();
        }
        let (dbm, km) = id_maps(dbs);
        for r in all.iter().skip(*known) {
            let dbn = dbm.get(&r.db).cloned().unwrap_or_else(|| format!("<unknown db id {}>", r.db));
            if solid_names.borrow().contains(&dbn) {
                solid_recs.borrow_mut().insert((r.time, r.db, r.key, r.op));
            }
            let kn = if r.op <= 1 { km.get(&r.key).cloned().unwrap_or_else(|| format!("<unknown key id {}>", r.key)) } else { String::new() };
            if let Some(prev) = intent.get(&(r.time, r.db, r.key, r.op)) {
                // the record written twice at a rotation boundary carries the same content
                if prev.0 != dbn || prev.1 != kn {
                    viols.push(Violation::new("record-id-ambiguous", "write-time", format!("record {} decodes to {:?} and to {:?} in one lifetime", r.time, prev, (&dbn, &kn))));
                }
            }
            intent.insert((r.time, r.db, r.key, r.op), (dbn, kn, r.op));
        }
        *known = all.len();
    };

    let restart = |w: &World, kind: &'static str, out: &mut Outcome, intent: &mut BTreeMap<(u64, u64, u64, u8), (String, String, u8)>, known: &mut usize| -> Option<(Arc<Databases>, Session)> {
        w.boot(0, "");
        if !w.wait_primary(0, 8_000) {
            let panic = with(|k| k.panics.last().map(|p| format!("{} at {}", p.message, p.location)));
            out.violations.push(Violation::new("restart-failed", kind.to_string(), format!("after {}: {:?}", kind, panic)));
            return None;
        }
        let dbs = w.dbs(0)?;
        out.restarts += 1;
        sleep_ms(2);
        let (all, _, _): (Vec<Rec>, usize, Vec<Rec>) = scan(idx);
        let last: u64 = spawn_on_node(w, 0, "last-op-time", move || Oplog::last_op_time()).join().unwrap_or(0);
        if all.is_empty() {
            if last != 0 {
                out.violations.push(Violation::new("discarded-but-not-resyncing", kind.to_string(), format!("after {}: no oplog records but last_op_time = {}", kind, last)));
            }
            out.discarded_after_restart += 1;
            intent.clear();
            *known = 0;
        } else {
            out.decoded_after_restart += 1;
            let (dbm, km) = id_maps(&dbs);
            for r in all.iter() {
                let want = match intent.get(&(r.time, r.db, r.key, r.op)) {
                    Some(w) => w,
                    None => continue, // written by this lifetime's start-up
                };
                let dbn = dbm.get(&r.db).cloned();
                let kn = if r.op <= 1 { km.get(&r.key).cloned() } else { Some(String::new()) };
                if dbn.as_deref() != Some(want.0.as_str()) {
                    // (records of a database that never completed a snapshot are the recorded finding; a database that
                    //  did persists, and so must the meaning of its records)
                    let persisted = solid_recs.borrow().contains(&(r.time, r.db, r.key, r.op));
                    let shape = format!("{}:db:{}{}", kind, if persisted { "persisted-database-" } else { "" }, if dbn.is_none() { "undecodable" } else { "other-database" });
                    if !out.violations.iter().any(|v| v.shape == shape) {
                        out.violations.push(Violation::new(
                            "record-decodes-wrong",
                            shape,
                            format!("after {}: record {} was written for database {:?} (id {}), the restarted node maps that id to {:?}", kind, r.time, want.0, r.db, dbn),
                        ));
                    }
                    if dbn.is_none() && !persisted {
                        // keep checking the other records (this class is a recorded finding)
                        continue;
                    }
                    break;
                }
                if kn.as_deref() != Some(want.1.as_str()) {
                    let shape = format!("{}:key:{}", kind, if kn.is_none() { "undecodable" } else { "other-key" });
                    out.violations.push(Violation::new(
                        "record-decodes-wrong",
                        shape,
                        format!("after {}: record {} was written for key {:?} (id {}), the restarted node maps that id to {:?}", kind, r.time, want.1, r.key, kn),
                    ));
                    break;
                }
            }
            *known = all.len();
        }
        check_unique_ids(&dbs, "after-restart", &mut out.violations);
        let admin = Session::admin(&dbs);
        Some((dbs, admin))
    };

    for (oi, op) in prog.ops.iter().enumerate() {
        // did an armed crash fire?
        if armed && !w.alive(0) {
            armed = false;
            out.crash_restarts += 1;
            last_restart_kind = "crash-point";
            match restart(&w, "crash-point", &mut out, &mut intent, &mut known) {
                Some((d, a)) => {
                    dbs = d;
                    admin = a;
                    cur = None;
                }
                None => return out,
            }
        }
        match op {
            Op::CreateDb { db } => {
                admin.exec(&format!("create-db {} tok none", DBN[*db]));
            }
            Op::CreateTwoAtOnce { a, b } => {
                let mut hs = Vec::new();
                for (t, d) in [(0, *a), (1, *b)] {
                    let dd = dbs.clone();
                    hs.push(spawn_on_node(&w, 0, &format!("creator{}", t), move || {
                        let mut s = Session::admin(&dd);
                        s.exec(&format!("create-db {} tok none", DBN[d]));
                        s.disconnect();
                    }));
                }
                for h in hs {
                    let _ = h.join();
                }
                nundb_verif_rt::kernel::with(|k| k.fault("concurrent_create_db"));
                check_unique_ids(&dbs, "concurrent-create", &mut out.violations);
            }
            Op::Write { db, key } => {
                if cur != Some(*db) {
                    if admin.exec(&format!("use-db {} tok", DBN[*db])).resp.is_err() {
                        continue;
                    }
                    cur = Some(*db);
                }
                uniq += 1;
                admin.exec(&format!("set {} v{}", KEYS[*key], uniq));
            }
            Op::Remove { db, key } => {
                if cur != Some(*db) {
                    if admin.exec(&format!("use-db {} tok", DBN[*db])).resp.is_err() {
                        continue;
                    }
                    cur = Some(*db);
                }
                admin.exec(&format!("remove {}", KEYS[*key]));
            }
            Op::Snapshot { mask, reclaim } => {
                let names: Vec<&str> = (0..4).filter(|i| mask & (1 << i) != 0).map(|i| DBN[i]).collect();
                // `snapshot <r> <names>` needs a selected database (without one the handler panics:
                // C10's subject), and a kill inside the reclaiming path is C11's known finding
                if cur.is_none() && admin.exec("use-db da tok").resp.is_err() {
                    continue;
                }
                if cur.is_none() {
                    cur = Some(0);
                }
                let reclaim = *reclaim && !armed;
                let r = admin.exec(&format!("snapshot {} {}", reclaim, names.join("|")));
                if !r.resp.is_err() {
                    for i in 0..4 {
                        if mask & (1 << i) != 0 {
                            snapshotted[i] = true;
                        }
                    }
                }
                let done = w.declutter_tick(0, 20_000);
                if done && !r.resp.is_err() && w.alive(0) && !armed {
                    for i in 0..4 {
                        if mask & (1 << i) != 0 && dbs.map.read().unwrap().contains_key(DBN[i]) {
                            solid_names.borrow_mut().insert(DBN[i].to_string());
                        }
                    }
                }
            }
            Op::RestartKill | Op::RestartSigint => {
                sleep_ms(2);
                if w.alive(0) {
                    attribute(&dbs, &mut known, &mut intent, &mut out.violations);
                }
                let kind = if matches!(op, Op::RestartSigint) && w.alive(0) {
                    w.sigint(0);
                    if !w.wait_exit(0, 20_000) {
                        out.violations.push(Violation::new("shutdown-stuck", "sigint", format!("op #{}: node did not exit after SIGINT", oi)));
                        return out;
                    }
                    "sigint"
                } else {
                    w.kill(0);
                    "kill"
                };
                armed = false;
                last_restart_kind = kind;
                match restart(&w, kind, &mut out, &mut intent, &mut known) {
                    Some((d, a)) => {
                        dbs = d;
                        admin = a;
                        cur = None;
                    }
                    None => return out,
                }
            }
            Op::ArmCrash { k, after } => {
                if !armed {
                    with(|kk| {
                        let n = &mut kk.nodes[idx as usize];
                        n.crash_at = Some((n.disk_mutations + *k as u64, *after));
                    });
                    armed = true;
                }
            }
        }
        sleep_ms(1);
        if w.alive(0) {
            attribute(&dbs, &mut known, &mut intent, &mut out.violations);
            check_unique_ids(&dbs, if out.restarts > 0 { "after-restart" } else { "first-lifetime" }, &mut out.violations);
        }
        if out.violations.iter().any(|v| !(v.clause == "record-decodes-wrong" && v.shape.ends_with(":db:undecodable"))) {
            break;
        }
    }
    let _ = (last_restart_kind, snapshotted);
    out
}

impl Property for C16 {
    fn id(&self) -> &'static str {
        "C16"
    }
    fn level(&self) -> &'static str {
        "fault_enumeration"
    }
    fn scenarios(&self) -> Vec<(&'static str, u32)> {
        vec![("history", 1)]
    }
    fn budget(&self) -> (u64, u64) {
        (60_000, 1_500_000)
    }
    fn rule(&self) -> &'static str {
        "histories of 4-20 steps of {create-db, first/later write of 5 keys, remove, snapshot of a subset of 1-4 databases (incremental/reclaiming), restart by kill, restart by SIGINT (real safe_shutdown), kill armed at the k-th (1-25) next mutating disk call before/after it} ending with a restart; after every step the records written since the previous step are attributed (through the writing lifetime's own id maps) to a database and key name; after every restart either the log is gone and last_op_time = 0, or every surviving record must decode through the restarted node's id maps to the same names; database ids and key ids must be pairwise distinct at every quiet point. Crash points are sampled (k random), not enumerated per history. Non-trivial: a restart found a non-empty log and decoded it, or discarded it. distinct = distinct programs."
    }
    fn assumptions(&self) -> Vec<String> {
        vec!["crash model = process kill; the armed kill counts every mutating disk call of the node (key-id registration flag, key map, oplog appends, snapshot files)".into()]
    }
    fn components(&self) -> Json {
        json!({"real": ["replication loop (generate_key_id, invalidate_oplog, oplog append)", "snapshot_keys/mark_op_log_as_valid", "safe_shutdown via SIGINT", "start_db (oplog-valid decision, clean_op_log_metadata_files, load_all_dbs)", "create_db id assignment"],
               "simulated": ["disk with crash points", "signals", "clock", "timer"], "stub": []})
    }
    fn run_one(&self, scenario: &str, ctx: &RunCtx) -> RunReport {
        let mut rng = Rng::new(ctx.seed);
        let prog: Program = match &ctx.program {
            Some(p) => serde_json::from_value(p.clone()).expect("program"),
            None => gen(&mut rng),
        };
        let mut cfg = SimConfig::new(ctx.seed ^ 0xc16);
        cfg.policy = policy_for(Rng::new(ctx.seed ^ 0x9011c7).next_u64());
        cfg.trace = ctx.trace;
        let p2 = prog.clone();
        let outcome = run_sim(cfg, move || execute(p2));
        clear_registry();
        let mut rep = RunReport { seed: ctx.seed, scenario: scenario.to_string(), ..Default::default() };
        rep.program = serde_json::to_value(&prog).unwrap();
        rep.absorb_kernel(&outcome.kernel);
        if let Some(p) = outcome.harness_panic {
            rep.harness_error = Some(p);
            return rep;
        }
        let out = match outcome.result {
            Some(o) => o,
            None => {
                rep.discarded = Some("run cut short".into());
                return rep;
            }
        };
        if !out.setup_ok {
            rep.discarded = Some("setup_unstable".into());
            return rep;
        }
        if !out.violations.iter().any(|v| v.clause == "restart-failed") {
            for p in outcome.kernel.panics.iter() {
                rep.violations.push(Violation::new("panic", p.location.clone(), format!("{} at {}", p.message, p.location)));
            }
        }
        rep.violations.extend(out.violations);
        rep.nontrivial = out.restarts > 0;
        rep.counters.insert("restarts".into(), out.restarts);
        rep.counters.insert("restarts_log_kept_and_decoded".into(), out.decoded_after_restart);
        rep.counters.insert("restarts_log_discarded".into(), out.discarded_after_restart);
        rep.counters.insert("restarts_after_armed_crash".into(), out.crash_restarts);
        rep.case_hash = hash_str(&rep.program.to_string());
        rep
    }
    fn shrink(&self, _scenario: &str, program: &Json) -> Vec<Json> {
        let p: Program = match serde_json::from_value(program.clone()) {
            Ok(p) => p,
            Err(_) => return vec![],
        };
        let mut out = Vec::new();
        for i in 0..p.ops.len() {
            let mut q = p.clone();
            q.ops.remove(i);
            out.push(serde_json::to_value(&q).unwrap());
        }
        out
    }
}
