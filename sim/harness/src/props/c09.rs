//! C09 -- every command acts only with the credential it requires.
use crate::common::*;
use crate::kv::*;
use crate::props::c04::dump_node;
use crate::world::*;
use nundb::bo::Databases;
use nundb_verif_rt::kernel::{self, Rng};
use nundb_verif_rt::sim::{run_sim, SimConfig};
use nundb_verif_rt::stdx::sync::Arc;
use serde::{Deserialize, Serialize};
use serde_json::{json, Value as Json};

pub struct C09;

#[derive(Clone, Debug, Serialize, Deserialize, PartialEq)]
pub enum Login {
    AdminOk,
    AdminWrongPassword,
    /// the right user name with something that is almost the password: "prefix" (its first half), "empty" (no
    /// password at all), "extended" (the password followed by more text), "case" (upper-cased)
    AdminAlmostPassword { how: String },
    DbToken,
    WrongToken,
    UnknownDb,
    UserToken,
    UserWrongToken,
    /// a user that does not exist, with the text the server prints for an absent value as its token
    GhostUser { name: String },
}

#[derive(Clone, Debug, Serialize, Deserialize, PartialEq)]
pub enum Cmd {
    Get,
    GetSafe,
    Set,
    SetSafe,
    Remove,
    Increment,
    Watch,
    Keys,
    Arbiter,
    Resolve,
    CreateDb,
    Snapshot,
    SnapshotNamed,
    CreateUser,
    SetPermissions,
    ClusterState,
    MetricsState,
    DebugListDbs,
    DebugPendingOps,
    Join,
    Leave,
    SetPrimary,
    SetSecoundary,
    ElectionWin,
    ElectionCandidate,
    Replicate,
    ReplicateRemove,
    ReplicateIncrement,
    ReplicateSnapshot,
    ReplicateJoin,
    ReplicateLeave,
    ReplicateSince,
    Ack,
    RpSet,
    ListCommands,
    /// a write whose value carries a line feed followed by an administrative replication command (what a
    /// WebSocket frame or an HTTP body can contain): the text after the line feed must never be executed,
    /// here or on another node
    SetWithLineFeed,
    /// the same with the line feed inside the *key* (`set ka\ncreate-db tok`): what follows it must not run as a command
    /// of its own on the nodes the write is replicated to
    SetKeyWithLineFeed,
    /// `election <neither win nor candidate> <name>` (the parser reads it as "a node is alive"), the name followed
    /// by a line feed and an administrative replication command: like every election command it is for
    /// administrators (the nodes), and the text after the line feed must never be executed on any node
    ElectionOtherWithLineFeed,
    /// `resolve` naming another database (one the session never presented a token for) than the selected one
    ResolveNamingOtherDb,
}

pub const ALL_CMDS: [Cmd; 39] = [
    Cmd::Get, Cmd::GetSafe, Cmd::Set, Cmd::SetSafe, Cmd::Remove, Cmd::Increment, Cmd::Watch, Cmd::Keys, Cmd::Arbiter, Cmd::Resolve,
    Cmd::CreateDb, Cmd::Snapshot, Cmd::SnapshotNamed, Cmd::CreateUser, Cmd::SetPermissions, Cmd::ClusterState, Cmd::MetricsState,
    Cmd::DebugListDbs, Cmd::DebugPendingOps, Cmd::Join, Cmd::Leave, Cmd::SetPrimary, Cmd::SetSecoundary, Cmd::ElectionWin,
    Cmd::ElectionCandidate, Cmd::Replicate, Cmd::ReplicateRemove, Cmd::ReplicateIncrement, Cmd::ReplicateSnapshot, Cmd::ReplicateJoin,
    Cmd::ReplicateLeave, Cmd::ReplicateSince, Cmd::Ack, Cmd::RpSet, Cmd::ListCommands, Cmd::SetWithLineFeed, Cmd::ElectionOtherWithLineFeed, Cmd::ResolveNamingOtherDb, Cmd::SetKeyWithLineFeed,
];

#[derive(Clone, Debug, Serialize, Deserialize, PartialEq)]
pub enum Step {
    Login(Login),
    /// the administrator (another session) replaces the user's permission list; None = removes it
    Permissions(Option<String>),
    Command { cmd: Cmd, key: String },
    /// the administrator requests a snapshot and the background snapshot runs on every node: keys written so far
    /// (user tokens, permission lists) are persisted, so removing one afterwards leaves a tombstone in memory
    Snapshot,
    /// the administrator removes the user (`remove $$user_u1`): its token no longer opens anything
    RemoveUser,
}

#[derive(Clone, Debug, Serialize, Deserialize)]
pub struct Program {
    pub steps: Vec<Step>,
    pub initial_permissions: Option<String>,
    /// cluster scenario: the session under test connects to the secondary instead of the primary
    #[serde(default)]
    pub session_on_secondary: bool,
    /// scenario transport-sessions: sessions opened one after the other over the real transports
    #[serde(default)]
    pub sessions: Vec<WireSession>,
}

#[derive(Clone, Debug, Serialize, Deserialize, PartialEq)]
pub enum Transport {
    Tcp,
    Ws,
    Http,
}

/// One session over a real transport: an optional login, then commands.  Over HTTP every request is a
/// session of its own, so the login is repeated in front of each command (`login;command`).
#[derive(Clone, Debug, Serialize, Deserialize, PartialEq)]
pub struct WireSession {
    pub transport: Transport,
    pub login: Option<Login>,
    pub cmds: Vec<(Cmd, String)>,
}

const KEYS: [&str; 5] = ["ka", "kb", "xa", "zz", "$$sec"];
const PERMS: [&str; 9] = ["r *", "w *", "rw k*", "rwix *", "r *a", "i zz|x zz", "w b", "rx k*|w xa", "r k*|r *a"];

fn gen(rng: &mut Rng) -> Program {
    let n = rng.range(1, 5) as usize;
    let mut steps = Vec::new();
    if rng.chance(4, 5) {
        steps.push(Step::Login(match rng.below(10) {
            0 | 1 => Login::AdminOk,
            2 => {
                if rng.chance(1, 2) {
                    Login::AdminWrongPassword
                } else {
                    Login::AdminAlmostPassword { how: ["prefix", "empty", "extended", "case"][rng.below(4) as usize].to_string() }
                }
            }
            3 | 4 => Login::DbToken,
            5 => Login::WrongToken,
            6 => Login::UnknownDb,
            7 | 8 => Login::UserToken,
            _ => {
                if rng.chance(1, 2) {
                    Login::UserWrongToken
                } else {
                    Login::GhostUser { name: ["all", "ghost", "u1"][rng.below(3) as usize].to_string() }
                }
            }
        }));
    }
    for _ in 0..n {
        steps.push(match rng.below(12) {
            0 => Step::Login(match rng.below(7) {
                0 => Login::AdminOk,
                1 => {
                    if rng.chance(1, 2) {
                        Login::AdminWrongPassword
                    } else {
                        Login::AdminAlmostPassword { how: ["prefix", "empty", "extended", "case"][rng.below(4) as usize].to_string() }
                    }
                }
                2 => Login::DbToken,
                3 => Login::WrongToken,
                4 => Login::UnknownDb,
                5 => Login::UserToken,
                _ => {
                    if rng.chance(1, 2) {
                        Login::UserWrongToken
                    } else {
                        Login::GhostUser { name: ["all", "ghost", "u1"][rng.below(3) as usize].to_string() }
                    }
                }
            }),
            1 => Step::Permissions(if rng.chance(1, 4) { None } else { Some(PERMS[rng.below(PERMS.len() as u64) as usize].to_string()) }),
            2 => {
                if rng.chance(2, 3) {
                    Step::Snapshot
                } else {
                    Step::RemoveUser
                }
            }
            _ => Step::Command { cmd: ALL_CMDS[rng.below(ALL_CMDS.len() as u64) as usize].clone(), key: KEYS[rng.below(KEYS.len() as u64) as usize].to_string() },
        });
    }
    let initial_permissions = if rng.chance(1, 4) { None } else { Some(PERMS[rng.below(PERMS.len() as u64) as usize].to_string()) };
    let session_on_secondary = rng.chance(1, 2);
    Program { steps, initial_permissions, session_on_secondary, sessions: vec![] }
}

fn gen_login(rng: &mut Rng) -> Login {
    match rng.below(10) {
        0..=2 => Login::AdminOk,
        3 => {
            if rng.chance(1, 2) {
                Login::AdminWrongPassword
            } else {
                Login::AdminAlmostPassword { how: ["prefix", "empty", "extended", "case"][rng.below(4) as usize].to_string() }
            }
        }
        4 | 5 => Login::DbToken,
        6 => Login::WrongToken,
        7 | 8 => Login::UserToken,
        _ => Login::UserWrongToken,
    }
}

fn gen_transports(rng: &mut Rng) -> Program {
    let n = rng.range(2, 6) as usize;
    let mut sessions = Vec::new();
    for _ in 0..n {
        let transport = match rng.below(4) {
            0 => Transport::Tcp,
            1 => Transport::Ws,
            _ => Transport::Http,
        };
        let login = if rng.chance(3, 4) { Some(gen_login(rng)) } else { None };
        let nc = rng.range(1, 2) as usize;
        let cmds = (0..nc).map(|_| (ALL_CMDS[rng.below(ALL_CMDS.len() as u64) as usize].clone(), KEYS[rng.below(KEYS.len() as u64) as usize].to_string())).collect();
        sessions.push(WireSession { transport, login, cmds });
    }
    let initial_permissions = if rng.chance(1, 4) { None } else { Some(PERMS[rng.below(PERMS.len() as u64) as usize].to_string()) };
    Program { steps: vec![], initial_permissions, session_on_secondary: false, sessions }
}

fn line(cmd: &Cmd, key: &str, uniq: u32) -> String {
    match cmd {
        Cmd::Get => format!("get {}", key),
        Cmd::GetSafe => format!("get-safe {}", key),
        Cmd::Set => format!("set {} new{}", key, uniq),
        Cmd::SetSafe => format!("set-safe {} 90 new{}", key, uniq),
        Cmd::Remove => format!("remove {}", key),
        Cmd::Increment => format!("increment {} 2", key),
        Cmd::Watch => format!("watch {}", key),
        Cmd::Keys => "keys".to_string(),
        Cmd::Arbiter => "arbiter".to_string(),
        Cmd::Resolve => format!("resolve 77 d {} 3 forced{}", key, uniq),
        Cmd::CreateDb => format!("create-db made{} t none", uniq),
        Cmd::Snapshot => "snapshot false".to_string(),
        Cmd::SnapshotNamed => "snapshot false d".to_string(),
        Cmd::CreateUser => format!("create-user nu{} pw", uniq),
        Cmd::SetPermissions => "set-permissions u1 rwix *".to_string(),
        Cmd::ClusterState => "cluster-state".to_string(),
        Cmd::MetricsState => "metrics-state".to_string(),
        Cmd::DebugListDbs => "debug list-dbs".to_string(),
        Cmd::DebugPendingOps => "debug pending-ops".to_string(),
        Cmd::Join => "join 10.9.9.9:3014".to_string(),
        Cmd::Leave => "leave 10.9.9.9:3014".to_string(),
        Cmd::SetPrimary => "set-primary 10.9.9.9:3014".to_string(),
        Cmd::SetSecoundary => "set-secoundary 10.9.9.9:3014".to_string(),
        Cmd::ElectionWin => "election win".to_string(),
        Cmd::ElectionCandidate => "election candidate 5 10.9.9.9:3014".to_string(),
        Cmd::Replicate => format!("replicate d {} 95 forced{}", key, uniq),
        Cmd::ReplicateRemove => format!("replicate-remove d {}", key),
        Cmd::ReplicateIncrement => format!("replicate-increment d {} 4", key),
        Cmd::ReplicateSnapshot => "replicate-snapshot d".to_string(),
        Cmd::ReplicateJoin => "replicate-join 10.9.9.9:3014".to_string(),
        Cmd::ReplicateLeave => "replicate-leave 10.9.9.9:3014".to_string(),
        Cmd::ReplicateSince => "replicate-since 10.9.9.9:3014 0".to_string(),
        Cmd::Ack => "ack 5 10.9.9.9:3014".to_string(),
        Cmd::RpSet => format!("rp 5 set {} viarp{}", key, uniq),
        Cmd::ListCommands => "list-commands".to_string(),
        Cmd::SetWithLineFeed => format!("set {} lf{}\nreplicate d $$sec 99 injected{}", if key.starts_with("$$") { "ka" } else { key }, uniq, uniq),
        Cmd::ResolveNamingOtherDb => format!("resolve 78 d2 {} 3 forcedother{}", key, uniq),
        Cmd::SetKeyWithLineFeed => format!("set {}\ncreate-db injtok{}", if key.starts_with("$$") { "ka" } else { key }, uniq),
        Cmd::ElectionOtherWithLineFeed => format!("election alive 10.9.9.9:3014\nreplicate d $$sec 99 injected{}", uniq),
    }
}

#[derive(Clone, Copy, Debug, PartialEq)]
enum Need {
    Admin,
    /// selected database + permission kind on the key
    Data(char),
    /// selected database only
    Selected,
    /// no credential (harmless for everybody)
    Nothing,
}

fn need(cmd: &Cmd) -> Need {
    match cmd {
        Cmd::Get | Cmd::GetSafe | Cmd::Watch => Need::Data('r'),
        Cmd::Set | Cmd::SetSafe | Cmd::Resolve | Cmd::SetWithLineFeed | Cmd::SetKeyWithLineFeed | Cmd::ResolveNamingOtherDb => Need::Data('w'),
        Cmd::Increment => Need::Data('i'),
        Cmd::Remove => Need::Data('x'),
        Cmd::Keys => Need::Selected,
        // conflict notices are reads
        Cmd::Arbiter => Need::Data('r'),
        Cmd::RpSet => Need::Data('w'),
        Cmd::ListCommands => Need::Admin,
        _ => Need::Admin,
    }
}

/// cluster commands an administrator may run but that would reshape the node: never executed as
/// administrator in this check (only their refusal is tested)
fn disruptive(cmd: &Cmd) -> bool {
    matches!(
        cmd,
        Cmd::Join | Cmd::Leave | Cmd::SetPrimary | Cmd::SetSecoundary | Cmd::ElectionWin | Cmd::ElectionCandidate | Cmd::ReplicateJoin | Cmd::ReplicateLeave | Cmd::ReplicateSince | Cmd::ElectionOtherWithLineFeed
    )
}

fn perm_allows(perms: &Option<String>, kind: char, key: &str) -> bool {
    match perms {
        None => false,
        Some(p) => p.split('|').any(|entry| {
            let mut it = entry.splitn(2, ' ');
            let kinds = it.next().unwrap_or("");
            let pats = it.next().unwrap_or("");
            kinds.contains(kind) && pats.split(',').any(|pat| pattern_matches(pat, key))
        }),
    }
}

/// The access-control reference model: may a session that is (not) an administrator, with this selection
/// (None = none, Some(None) = database token, Some(Some(user)) = user token) and this permission list of the
/// user, run `cmd` on `key`?
fn model_allows(cmd: &Cmd, key: &str, is_admin: bool, selected: &Option<Option<String>>, perms: &Option<String>) -> bool {
    let key = if matches!(cmd, Cmd::SetWithLineFeed | Cmd::SetKeyWithLineFeed) && key.starts_with("$$") { "ka" } else { key };
    // (the key the node sees is everything up to the first blank)
    let lf_key = format!("{}\ncreate-db", key);
    let key = if *cmd == Cmd::SetKeyWithLineFeed { lf_key.as_str() } else { key };
    let secure = key.starts_with("$$");
    let keyed = !matches!(cmd, Cmd::Keys | Cmd::Arbiter);
    let needs_selection_too = matches!(cmd, Cmd::CreateUser | Cmd::SetPermissions | Cmd::Snapshot);
    match need(cmd) {
        Need::Nothing => true,
        // an administrator's resolve names its database itself
        Need::Data(_) if matches!(cmd, Cmd::Resolve | Cmd::ResolveNamingOtherDb) && is_admin => true,
        Need::Admin => is_admin && (!needs_selection_too || selected.is_some()),
        Need::Selected => selected.is_some(),
        Need::Data(kind) => match selected {
            None => false,
            Some(user) => {
                if keyed && secure {
                    is_admin
                } else {
                    match user {
                        None => true,
                        Some(_) => {
                            if keyed {
                                perm_allows(perms, kind, key)
                            } else {
                                // arbiter: conflict notices of the whole database
                                perm_allows(perms, kind, "$conflicts")
                            }
                        }
                    }
                }
            }
        },
    }
}

fn cred_label(is_admin: bool, selected: &Option<Option<String>>, perms: &Option<String>) -> String {
    if is_admin {
        "admin".to_string()
    } else {
        match selected {
            None => "none".to_string(),
            Some(None) => "db-token".to_string(),
            Some(Some(_)) => format!("user-token[{}]", perms.clone().unwrap_or_else(|| "no-list".into()).split(' ').next().unwrap_or("")),
        }
    }
}

fn almost_password(how: &str) -> String {
    match how {
        "prefix" => format!("auth {} {}", USER, &PWD[..PWD.len() / 2]),
        "empty" => format!("auth {}", USER),
        "extended" => format!("auth {} {}-and-more", USER, PWD),
        _ => format!("auth {} {}", USER, PWD.to_uppercase()),
    }
}

fn login_line(l: &Login) -> String {
    match l {
        Login::AdminAlmostPassword { how } => almost_password(how),
        Login::AdminOk => format!("auth {} {}", USER, PWD),
        Login::AdminWrongPassword => format!("auth {} nope", USER),
        Login::DbToken => "use-db d tok".to_string(),
        Login::WrongToken => "use-db d nope".to_string(),
        Login::UnknownDb => "use-db nosuch tok".to_string(),
        Login::UserToken => "use-db d u1 pw1".to_string(),
        Login::UserWrongToken => "use-db d u1 nope".to_string(),
        Login::GhostUser { name } => format!("use-db d {} <Empty>", name),
    }
}

/// what a refused command must never be answered with (replies that carry data of the node)
fn carries_data(reply: &str) -> bool {
    let t = reply.trim_start();
    ["value ", "value-version ", "keys ", "cluster-state ", "dbs-list ", "pending-ops", "metrics-state", "oplog-state", "commands-list", "changed ", "changed-version ", "create-db success", "process-info"]
        .iter()
        .any(|p| t.starts_with(p))
}

/// Scenario transport-sessions: every session is new, so its credential is exactly what its own login gave
/// it -- whatever sessions before it (on the same connection-handling thread or HTTP worker) had.
fn run_wire_sessions(w: &World, own: &Arc<Databases>, prog: &Program, perms: &Option<String>, out: &mut Outcome) {
    let mut uniq = 1000;
    for (si, ws) in prog.sessions.iter().enumerate() {
        let (is_admin, selected): (bool, Option<Option<String>>) = match &ws.login {
            Some(Login::AdminOk) => (true, None),
            Some(Login::DbToken) => (false, Some(None)),
            Some(Login::UserToken) => (false, Some(Some("u1".into()))),
            _ => (false, None),
        };
        let login = ws.login.as_ref().map(login_line);
        let tname = match ws.transport {
            Transport::Tcp => "tcp",
            Transport::Ws => "ws",
            Transport::Http => "http",
        };
        let mut tcp: Option<WireClient> = None;
        let mut wsc: Option<WsClient> = None;
        match ws.transport {
            Transport::Tcp => {
                let mut c = match WireClient::connect(&w.nodes[0].tcp) {
                    Some(c) => c,
                    None => continue,
                };
                if !c.greeting(2_000) {
                    continue;
                }
                if let Some(l) = login.as_ref() {
                    if c.request(l, 2_000).is_none() {
                        continue;
                    }
                }
                tcp = Some(c);
            }
            Transport::Ws => {
                let mut c = match WsClient::connect(&w.nodes[0].ws) {
                    Some(c) => c,
                    None => continue,
                };
                if let Some(l) = login.as_ref() {
                    if c.request(l, 2_000).is_none() {
                        continue;
                    }
                }
                wsc = Some(c);
            }
            Transport::Http => {}
        }
        for (cmd, key) in ws.cmds.iter() {
            uniq += 1;
            let l = line(cmd, key, uniq);
            let allowed = model_allows(cmd, key, is_admin, &selected, perms);
            if allowed && (disruptive(cmd) || matches!(cmd, Cmd::SetPermissions)) {
                continue;
            }
            if matches!(cmd, Cmd::SetWithLineFeed | Cmd::SetKeyWithLineFeed | Cmd::ElectionOtherWithLineFeed) && ws.transport == Transport::Tcp {
                // over TCP a line feed ends the command: that is two commands, not one value
                continue;
            }
            let cred = cred_label(is_admin, &selected, perms);
            let before = if allowed { None } else { Some(full_state(w, own)) };
            let replies: Option<Vec<String>> = match ws.transport {
                Transport::Tcp => tcp.as_mut().and_then(|c| c.request(&l, 3_000)),
                Transport::Ws => wsc.as_mut().and_then(|c| c.request(&l, 3_000)),
                Transport::Http => {
                    let body = match login.as_ref() {
                        Some(lg) => format!("{};{}", lg, l),
                        None => l.clone(),
                    };
                    http_request(&w.nodes[0].http, &body, 3_000).map(|r| {
                        let entries: Vec<String> = r.split(';').map(|x| x.to_string()).collect();
                        // the entry of the command is the last one (the login, when present, has its own)
                        match entries.last() {
                            Some(e) => vec![e.clone()],
                            None => vec![],
                        }
                    })
                }
            };
            let replies = match replies {
                Some(r) => r,
                None => continue,
            };
            if allowed {
                out.allowed_checked += 1;
                let refused = replies.iter().any(|m| m.contains("permission denied") || m.contains("Not auth") || m.contains("no-db-selected") || m.contains("must auth as an admin"));
                if refused {
                    out.violations.push(Violation::new(
                        "allowed-but-refused",
                        format!("{:?}:{}:{}", cmd, cred, tname),
                        format!("session #{} over {} (login {:?}) `{}` with credential {} (permissions {:?}) => {:?}", si, tname, ws.login, l, cred, perms, replies),
                    ));
                }
                if matches!(cmd, Cmd::Watch | Cmd::Arbiter) {
                    match ws.transport {
                        Transport::Tcp => {
                            tcp.as_mut().and_then(|c| c.request("unwatch-all", 2_000));
                        }
                        Transport::Ws => {
                            wsc.as_mut().and_then(|c| c.request("unwatch-all", 2_000));
                        }
                        Transport::Http => {}
                    }
                }
            } else {
                sleep_ms(5);
                let after = full_state(w, own);
                let before = before.unwrap();
                out.denied_checked += 1;
                if before != after {
                    let what = if before.dump != after.dump {
                        "data"
                    } else if before.role != after.role || before.members != after.members {
                        "cluster"
                    } else {
                        "queues"
                    };
                    out.violations.push(Violation::new(
                        "denied-but-acted",
                        format!("{:?}:{}:{}:{}", cmd, cred, what, tname),
                        format!("session #{} over {} (login {:?}) `{}` with credential {} (permissions {:?}) must be refused but changed the {}: replies {:?}", si, tname, ws.login, l, cred, perms, what, replies),
                    ));
                }
                let leaked: Vec<&String> = replies.iter().filter(|m| carries_data(m)).collect();
                if !leaked.is_empty() {
                    out.violations.push(Violation::new(
                        "denied-but-answered",
                        format!("{:?}:{}:{}", cmd, cred, tname),
                        format!("session #{} over {} (login {:?}) `{}` with credential {} (permissions {:?}) must be refused but the session received {:?}", si, tname, ws.login, l, cred, perms, leaked),
                    ));
                }
            }
            if !w.alive(0) || w.role(0) != Some(nundb::bo::ClusterRole::Primary) {
                return;
            }
        }
        if let Some(mut c) = tcp.take() {
            c.close();
        }
        if let Some(mut c) = wsc.take() {
            c.close_clean();
        }
        sleep_ms(5);
    }
}

struct Outcome {
    setup: Result<(), String>,
    violations: Vec<Violation>,
    denied_checked: u64,
    allowed_checked: u64,
}

#[derive(Clone, Debug, PartialEq)]
struct Full {
    dump: crate::props::c04::NodeDump,
    role: String,
    members: Vec<(String, String, String)>,
    snapshot_queue: Vec<(String, bool)>,
    pending: usize,
}

fn full_state(w: &World, dbs: &Arc<Databases>) -> Full {
    let _ = w;
    let role = format!("{}", dbs.get_role());
    let members: Vec<(String, String, String)> = {
        let cs = dbs.cluster_state.lock().unwrap();
        let m = cs.members.lock().unwrap();
        let mut v: Vec<(String, String, String)> = m.iter().map(|(n, mem)| (n.clone(), format!("{}", mem.role), if mem.sender.is_some() { "connected".to_string() } else { "-".to_string() })).collect();
        v.sort();
        v
    };
    let mut dump = dump_node(dbs);
    // the connection counter is session bookkeeping, not data
    for (_, (_, keys)) in dump.iter_mut() {
        keys.remove("$connections");
    }
    Full {
        dump,
        role,
        members,
        snapshot_queue: dbs.to_snapshot.read().unwrap().clone(),
        pending: dbs.pending_opps.read().unwrap().len(),
    }
}

fn is_data_line(m: &str) -> bool {
    let t = m.trim();
    !(t.is_empty() || t.starts_with("error") || t.starts_with("permission denied") || t == "invalid auth" || t == "valid auth" || t.starts_with("ack "))
}

fn execute(prog: Program, cluster: bool) -> Outcome {
    let mut out = Outcome { setup: Err("boot".into()), violations: vec![], denied_checked: 0, allowed_checked: 0 };
    let w = World::new(if cluster { 2 } else { 1 });
    let addrs = if cluster { w.all_tcp() } else { String::new() };
    w.boot(0, &addrs);
    if !w.wait_primary(0, 5_000) {
        out.setup = Err("setup_unstable".into());
        return out;
    }
    if cluster {
        // a secondary follows the primary: a refused command must not reach it either
        w.boot(1, &addrs);
        let ok = wait_cond(12_000, 50, || w.agreed_primary() == Ok(0)) && w.settle(300, 3_000);
        if !ok || w.agreed_primary() != Ok(0) {
            out.setup = Err("setup_unstable".into());
            return out;
        }
    }
    let dbs = match w.dbs(0) {
        Some(d) => d,
        None => return out,
    };
    let dbs_secondary = if cluster { w.dbs(1) } else { None };
    let mut admin = Session::admin(&dbs);
    if admin.exec("create-db d tok arbiter").resp.is_err() {
        return out;
    }
    admin.exec("use-db d tok");
    for (k, v) in [("ka", "1"), ("kb", "2"), ("xa", "3"), ("zz", "4"), ("$$sec", "5")] {
        admin.exec(&format!("set {} {}", k, v));
    }
    // a second database the session under test never gets a token for
    admin.exec("create-db d2 tok2 none");
    admin.exec("use-db d2 tok2");
    for (k, v) in [("ka", "o1"), ("kb", "o2"), ("xa", "o3"), ("zz", "o4")] {
        admin.exec(&format!("set {} {}", k, v));
    }
    admin.exec("use-db d tok");
    admin.exec("create-user u1 pw1");
    let mut perms = prog.initial_permissions.clone();
    if let Some(p) = perms.as_ref() {
        admin.exec(&format!("set-permissions u1 {}", p));
    }
    // let the start-up election finish its bookkeeping (the supervisor adds the node to its own
    // member table asynchronously)
    sleep_ms(100);
    if cluster && !w.settle(300, 5_000) {
        out.setup = Err("setup_unstable".into());
        return out;
    }
    out.setup = Ok(());
    // the session under test (on the primary, or on the secondary of the cluster scenario)
    let on_secondary = cluster && prog.session_on_secondary && dbs_secondary.is_some();
    let (own, other) = if on_secondary { (dbs_secondary.clone().unwrap(), Some(dbs.clone())) } else { (dbs.clone(), dbs_secondary.clone()) };
    let site = if !cluster {
        ""
    } else if on_secondary {
        ":session@secondary"
    } else {
        ":session@primary"
    };
    if !prog.sessions.is_empty() {
        run_wire_sessions(&w, &own, &prog, &perms, &mut out);
        for p in nundb_verif_rt::kernel::with(|k| k.panics.clone()) {
            out.violations.push(Violation::new("panic", p.location.rsplit('/').next().unwrap_or("?").to_string(), format!("{} at {}", p.message, p.location)));
        }
        return out;
    }
    let mut s = Session::new(&own);
    let mut is_admin = false;
    // Some(None) = database token session, Some(Some(user)) = user token session
    let mut selected: Option<Option<String>> = None;
    let mut uniq = 0;
    let mut user_exists = true;
    for (i, step) in prog.steps.iter().enumerate() {
        match step {
            Step::Snapshot => {
                admin.exec("snapshot false");
                if cluster {
                    w.settle(100, 2_000);
                }
                for n in 0..w.nodes.len() {
                    w.declutter_tick(n, 5_000);
                }
            }
            Step::RemoveUser => {
                admin.exec("remove $$user_u1");
                user_exists = false;
                if cluster {
                    w.settle(100, 2_000);
                }
            }
            Step::Login(l) => {
                let before_sel = s.client.selected_db_name();
                let before_user = s.client.selected_db_user_name();
                let (cmdline, ok) = match l {
                    Login::AdminOk => (format!("auth {} {}", USER, PWD), true),
                    Login::AdminWrongPassword => (format!("auth {} nope", USER), false),
                    Login::AdminAlmostPassword { how } => (almost_password(how), false),
                    Login::DbToken => ("use-db d tok".to_string(), true),
                    Login::WrongToken => ("use-db d nope".to_string(), false),
                    Login::UnknownDb => ("use-db nosuch tok".to_string(), false),
                    Login::UserToken => ("use-db d u1 pw1".to_string(), user_exists),
                    Login::UserWrongToken => ("use-db d u1 nope".to_string(), false),
                    Login::GhostUser { name } => (format!("use-db d {} <Empty>", name), false),
                };
                s.exec(&cmdline);
                match l {
                    Login::AdminOk => is_admin = true,
                    Login::DbToken => selected = Some(None),
                    Login::UserToken if user_exists => selected = Some(Some("u1".into())),
                    _ => {}
                }
                if !ok && matches!(l, Login::WrongToken | Login::UnknownDb | Login::UserWrongToken | Login::GhostUser { .. } | Login::UserToken) {
                    // a failed use-db leaves the previous selection untouched
                    if s.client.selected_db_name() != before_sel || s.client.selected_db_user_name() != before_user {
                        out.violations.push(Violation::new(
                            "failed-use-db-changed-selection",
                            format!("{:?}{}", l, if user_exists { "" } else { ":user-removed" }),
                            format!("step #{} `{}` failed but the selection went {:?}/{:?} -> {:?}/{:?}", i, cmdline, before_sel, before_user, s.client.selected_db_name(), s.client.selected_db_user_name()),
                        ));
                    }
                }
                if matches!(l, Login::AdminWrongPassword | Login::AdminAlmostPassword { .. }) && s.client.is_admin_auth() != is_admin {
                    out.violations.push(Violation::new("auth-state-wrong", "wrong-password".to_string(), format!("step #{} `{}`: admin flag is {}", i, cmdline, s.client.is_admin_auth())));
                }
                // a db-token login after a user-token login keeps the user name in the code (selection
                // is db + user): follow the implementation's notion for the user name
                if matches!(l, Login::DbToken) {
                    selected = Some(s.client.selected_db_user_name());
                }
            }
            Step::Permissions(p) => {
                match p {
                    Some(p) => {
                        admin.exec(&format!("set-permissions u1 {}", p));
                    }
                    None => {
                        admin.exec("remove $$permission_$u1");
                    }
                }
                perms = p.clone();
                if cluster {
                    w.settle(100, 2_000);
                }
            }
            Step::Command { cmd, key } => {
                uniq += 1;
                let l = line(cmd, key, uniq);
                let allowed = model_allows(cmd, key, is_admin, &selected, &perms);
                let cred = cred_label(is_admin, &selected, &perms);
                if *cmd == Cmd::ResolveNamingOtherDb && !is_admin {
                    // whatever the command does to the selected database (the model above), the database it names
                    // is not this session's: it must not change on any node
                    let d2_of = |d: &Arc<Databases>| dump_node(d).get("d2").map(|(_, keys)| keys.clone());
                    let before = (d2_of(&own), other.as_ref().map(|d| d2_of(d)));
                    let r = s.exec(&l);
                    sleep_ms(5);
                    if cluster {
                        w.settle(100, 2_000);
                    }
                    let after = (d2_of(&own), other.as_ref().map(|d| d2_of(d)));
                    out.denied_checked += 1;
                    if before != after {
                        out.violations.push(Violation::new(
                            "acted-on-unselected-database",
                            format!("{:?}:{}{}", cmd, cred, site),
                            format!("step #{} `{}` with credential {} (selected database d at most; reply {:?}): database d2 changed, this node {} / other node {}", i, l, cred, r.resp, before.0 != after.0, before.1 != after.1),
                        ));
                    }
                    continue;
                }
                if allowed {
                    if disruptive(cmd) {
                        continue;
                    }
                    let secure_of = |d: &Arc<Databases>| dump_node(d).get("d").and_then(|(_, keys)| keys.get("$$sec").cloned());
                    let sec_before = (secure_of(&own), other.as_ref().map(|d| secure_of(d)));
                    let names_of = |d: &Arc<Databases>| dump_node(d).keys().cloned().collect::<Vec<String>>();
                    let dbs_before = (names_of(&own), other.as_ref().map(|d| names_of(d)));
                    let r = s.exec(&l);
                    if cluster {
                        w.settle(100, 2_000);
                    }
                    out.allowed_checked += 1;
                    if *cmd == Cmd::SetKeyWithLineFeed && !is_admin {
                        let dbs_after = (names_of(&own), other.as_ref().map(|d| names_of(d)));
                        if dbs_before != dbs_after {
                            out.violations.push(Violation::new(
                                "injected-command-executed",
                                format!("{:?}:{}{}", cmd, cred, site),
                                format!("step #{} {:?} with credential {} is a permitted write of one key, but the databases went {:?} -> {:?} (this node, other node): the text after the line feed was executed as a command", i, l, cred, dbs_before, dbs_after),
                            ));
                        }
                    }
                    if *cmd == Cmd::SetWithLineFeed && !is_admin {
                        let sec_after = (secure_of(&own), other.as_ref().map(|d| secure_of(d)));
                        if sec_before != sec_after {
                            out.violations.push(Violation::new(
                                "injected-command-executed",
                                format!("{:?}:{}{}", cmd, cred, site),
                                format!("step #{} {:?} with credential {} is a permitted write, but the secure key $$sec went {:?} -> {:?} (this node, other node): the text after the line feed was executed", i, l, cred, sec_before, sec_after),
                            ));
                        }
                    }
                    let denied_text = match &r.resp {
                        Resp::Error(m) => m.contains("permission denied") || m.contains("Not auth") || m.contains("no-db-selected") || m.contains("must auth as an admin"),
                        _ => false,
                    };
                    if denied_text {
                        out.violations.push(Violation::new(
                            "allowed-but-refused",
                            format!("{:?}:{}", cmd, cred),
                            format!("step #{} `{}` with credential {} (permissions {:?}) => {:?}", i, l, cred, perms, r.resp),
                        ));
                    }
                    if matches!(cmd, Cmd::Watch | Cmd::Arbiter) {
                        s.exec("unwatch-all");
                    }
                    if *cmd == Cmd::SetPermissions && !matches!(r.resp, Resp::Error(_)) {
                        // the session under test (administrator with database d selected) has just
                        // replaced u1's permission list itself: the model follows
                        perms = Some("rwix *".to_string());
                    }
                } else {
                    let before = full_state(&w, &own);
                    let before_other = other.as_ref().map(|d| full_state(&w, d).dump);
                    let r = s.exec(&l);
                    sleep_ms(5);
                    if cluster {
                        w.settle(100, 2_000);
                    }
                    let after = full_state(&w, &own);
                    let after_other = other.as_ref().map(|d| full_state(&w, d).dump);
                    out.denied_checked += 1;
                    if before_other != after_other {
                        out.violations.push(Violation::new(
                            "denied-but-replicated",
                            format!("{:?}:{}{}", cmd, cred, site),
                            format!("step #{} `{}` with credential {} (permissions {:?}) must be refused (reply {:?}) but the data of the other node ({}) changed", i, l, cred, perms, r.resp, if on_secondary { "the primary" } else { "the secondary" }),
                        ));
                    }
                    if before != after {
                        let what = if before.dump != after.dump {
                            "data"
                        } else if before.role != after.role || before.members != after.members {
                            "cluster"
                        } else {
                            "queues"
                        };
                        out.violations.push(Violation::new(
                            "denied-but-acted",
                            format!("{:?}:{}:{}", cmd, cred, what),
                            format!("step #{} `{}` with credential {} (permissions {:?}) must be refused but changed the {}: reply {:?}", i, l, cred, perms, what, r.resp),
                        ));
                    }
                    let leaked: Vec<&String> = r.msgs.iter().filter(|m| is_data_line(m)).collect();
                    if !leaked.is_empty() {
                        out.violations.push(Violation::new(
                            "denied-but-answered",
                            format!("{:?}:{}", cmd, cred),
                            format!("step #{} `{}` with credential {} (permissions {:?}) must be refused but the session received {:?}", i, l, cred, perms, leaked),
                        ));
                    }
                    if matches!(cmd, Cmd::Watch | Cmd::Arbiter) {
                        s.exec("unwatch-all");
                    }
                }
            }
        }
        if !w.alive(0) || w.role(0) != Some(nundb::bo::ClusterRole::Primary) {
            // a cluster command got through and reshaped the node
            break;
        }
    }
    for p in nundb_verif_rt::kernel::with(|k| k.panics.clone()) {
        out.violations.push(Violation::new("panic", p.location.rsplit('/').next().unwrap_or("?").to_string(), format!("{} at {}", p.message, p.location)));
    }
    out
}

impl Property for C09 {
    fn id(&self) -> &'static str {
        "C09"
    }
    fn scenarios(&self) -> Vec<(&'static str, u32)> {
        vec![("matrix", 6), ("matrix-with-secondary", 1), ("transport-sessions", 1)]
    }
    fn budget(&self) -> (u64, u64) {
        (200_000, 4_000_000)
    }
    fn rule(&self) -> &'static str {
        "one session performs 1-6 steps of {login: administrator ok / wrong password, database token, wrong token, unknown database, user token ok / wrong; the administrator (another session) replaces or removes the user's permission list mid-session; one of 35 commands (every command word of the parser) on one of 5 keys incl. a $$ key}, permission lists from 9 lists over {r,w,i,x} with prefix*, *suffix and contains patterns. Access-control reference model: administrative and cluster commands need the administrator login; data commands need a selected database and, for user-token sessions, a permission entry of the right kind whose pattern matches the key; $$ keys need the administrator. Denied => the full white-box state (all databases, role, member table, snapshot queue, pending operations) is unchanged and the session receives no data line; allowed => no permission/credential error. Disruptive cluster commands are only tested for refusal. Scenario matrix-with-secondary runs the same walk on the primary or on the secondary of a 2-node cluster: a refused command must leave the data of the other node unchanged as well. Scenario transport-sessions opens 2-6 sessions one after the other over the real TCP, WebSocket and HTTP front ends (HTTP: one request = one session, `login;command`), each with its own login (or none) and 1-2 commands: a session's credential is what its own login gave it, whatever earlier sessions served by the same thread / HTTP worker had (same model, same denied => unchanged + no data reply). Non-trivial: at least one denied command was checked. distinct = distinct programs."
    }
    fn assumptions(&self) -> Vec<String> {
        vec![
            "essentially a seeded matrix walk against a model; simulation supplies the booted node, the cluster commands' side effects (join/leave/election really start threads) and state dumps".into(),
            "`arbiter` (conflict notices) counts as a read of $conflicts; `resolve` and `rp <id> set` count as writes of the key".into(),
        ]
    }
    fn components(&self) -> Json {
        json!({"real": ["process_request", "security (apply_if_auth, apply_if_safe_access, has_permission)", "parse_request", "election/join/leave handlers", "tcp_ops / ws_ops handler / http_ops workers (scenario transport-sessions)"], "simulated": ["threads", "clock", "TCP", "ws and tiny_http wire layers"], "stub": []})
    }
    fn run_one(&self, scenario: &str, ctx: &RunCtx) -> RunReport {
        let mut rng = Rng::new(ctx.seed);
        let prog: Program = match &ctx.program {
            Some(p) => serde_json::from_value(p.clone()).expect("program"),
            None => {
                if scenario == "transport-sessions" {
                    gen_transports(&mut rng)
                } else {
                    gen(&mut rng)
                }
            }
        };
        let mut cfg = SimConfig::new(ctx.seed ^ 0xc09);
        cfg.policy = policy_for(Rng::new(ctx.seed ^ 0x9011c7).next_u64());
        cfg.trace = ctx.trace;
        let p2 = prog.clone();
        let cluster = scenario == "matrix-with-secondary";
        let outcome = run_sim(cfg, move || execute(p2, cluster));
        clear_registry();
        let mut rep = RunReport { seed: ctx.seed, scenario: scenario.to_string(), ..Default::default() };
        rep.program = serde_json::to_value(&prog).unwrap();
        rep.absorb_kernel(&outcome.kernel);
        if let Some(p) = outcome.harness_panic {
            rep.harness_error = Some(p);
            return rep;
        }
        let out = match outcome.result {
            Some(o) => o,
            None => {
                rep.discarded = Some("truncated".into());
                return rep;
            }
        };
        if let Err(e) = out.setup {
            rep.discarded = Some(e);
            return rep;
        }
        rep.violations.extend(out.violations);
        rep.nontrivial = out.denied_checked > 0;
        rep.counters.insert("denied_checked".into(), out.denied_checked);
        rep.counters.insert("allowed_checked".into(), out.allowed_checked);
        rep.case_hash = hash_str(&rep.program.to_string());
        let _ = kernel::MS;
        rep
    }
    fn shrink(&self, _scenario: &str, program: &Json) -> Vec<Json> {
        let p: Program = match serde_json::from_value(program.clone()) {
            Ok(p) => p,
            Err(_) => return vec![],
        };
        let mut out = Vec::new();
        for i in 0..p.sessions.len() {
            if p.sessions.len() > 1 {
                let mut q = p.clone();
                q.sessions.remove(i);
                out.push(serde_json::to_value(&q).unwrap());
            }
            if p.sessions[i].cmds.len() > 1 {
                for j in 0..p.sessions[i].cmds.len() {
                    let mut q = p.clone();
                    q.sessions[i].cmds.remove(j);
                    out.push(serde_json::to_value(&q).unwrap());
                }
            }
        }
        for i in 0..p.steps.len() {
            if p.steps.len() > 1 {
                let mut q = p.clone();
                q.steps.remove(i);
                out.push(serde_json::to_value(&q).unwrap());
            }
        }
        out
    }
}
