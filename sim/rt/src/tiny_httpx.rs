//! `tiny_http` facade: requests arrive as one length-prefixed frame (the body) over the simulated
//! TCP; the reply is one frame.  nun-db's real worker loops call `recv`/`respond`.
use crate::frame::{self, Frame};
use crate::kernel::{self, with, Wait};
use crate::stdx::net::{TcpListener, TcpStream};
use std::io::{self, Cursor};

pub struct Server {
    listener: TcpListener,
}

impl Server {
    pub fn http<A: crate::stdx::net::AsAddr>(addr: A) -> Result<Server, Box<dyn std::error::Error + Send + Sync + 'static>> {
        let listener = TcpListener::bind(addr)?;
        Ok(Server { listener })
    }
    pub fn recv(&self) -> io::Result<Request> {
        loop {
            let lid = self.listener.id();
            kernel::wait(Wait::Accept(lid), false);
            let pending = with(|k| !k.net.listeners[lid].queue.is_empty());
            if !pending {
                let open = with(|k| k.net.listeners[lid].open);
                if !open {
                    return Err(io::Error::new(io::ErrorKind::Other, "server closed"));
                }
                continue;
            }
            let (stream, _) = self.listener.accept()?;
            let mut buf = Vec::new();
            match frame::read_frame_blocking(stream.endpoint(), &mut buf, None) {
                Some(Frame::Data(body)) => return Ok(Request { stream, body: BodyReader { data: Cursor::new(body), reads: 0 } }),
                _ => continue, // client went away before sending a request
            }
        }
    }
}

/// The body as tiny_http hands it out: a body of at most 1 KiB is pre-loaded and comes back in one `read`;
/// a longer one is read through the connection's 1 KiB buffer, so a single `read` returns what is left of
/// that buffer after the headers (short reads are what `Read` allows; `read_to_string` loops over them).
pub struct BodyReader {
    data: Cursor<Vec<u8>>,
    reads: u32,
}
impl io::Read for BodyReader {
    fn read(&mut self, buf: &mut [u8]) -> io::Result<usize> {
        let total = self.data.get_ref().len();
        let cap = if total <= 1024 {
            buf.len()
        } else if self.reads == 0 {
            buf.len().min(880)
        } else {
            buf.len().min(1024)
        };
        self.reads += 1;
        io::Read::read(&mut self.data, &mut buf[..cap])
    }
}

pub struct Request {
    stream: TcpStream,
    body: BodyReader,
}
impl Request {
    pub fn as_reader(&mut self) -> &mut dyn io::Read {
        &mut self.body
    }
    /// Content-Length of the request
    pub fn body_length(&self) -> Option<usize> {
        Some(self.body.data.get_ref().len())
    }
    pub fn respond(self, r: Response) -> io::Result<()> {
        frame::write_frame(self.stream.endpoint(), &r.data)
            .map_err(|_| io::Error::new(io::ErrorKind::BrokenPipe, "Broken pipe"))
    }
}

pub struct Response {
    data: Vec<u8>,
}
impl Response {
    pub fn from_string<S: Into<String>>(s: S) -> Response {
        Response { data: s.into().into_bytes() }
    }
}
