//! `futures` facade: everything is the real crate except `executor::block_on`, which parks the
//! calling task on a wait-predicate (wake flag or simulated I/O readiness) instead of an OS thread.
pub use ::futures::*;

pub mod executor {
    pub use ::futures::executor::{block_on_stream, enter, BlockingStream, Enter, EnterError, LocalPool, LocalSpawner};
    use crate::kernel::{self, with, Wait};
    use std::future::Future;
    use std::sync::atomic::{AtomicBool, Ordering};
    use std::sync::Arc;
    use std::task::{Context, Poll, Wake, Waker};

    struct WakeFlag(Arc<AtomicBool>);
    impl Wake for WakeFlag {
        fn wake(self: Arc<Self>) {
            self.0.store(true, Ordering::SeqCst);
        }
        fn wake_by_ref(self: &Arc<Self>) {
            self.0.store(true, Ordering::SeqCst);
        }
    }

    pub fn block_on<F: Future>(f: F) -> F::Output {
        let flag = Arc::new(AtomicBool::new(false));
        let waker = Waker::from(Arc::new(WakeFlag(flag.clone())));
        let mut cx = Context::from_waker(&waker);
        let mut f = std::pin::pin!(f);
        let id = kernel::me();
        loop {
            flag.store(false, Ordering::SeqCst);
            with(|k| {
                if let Some(v) = k.io_interest.get_mut(id) {
                    v.clear()
                }
            });
            if let Poll::Ready(v) = f.as_mut().poll(&mut cx) {
                return v;
            }
            let mut ws: Vec<Wait> = with(|k| k.io_interest.get_mut(id).map(std::mem::take).unwrap_or_default());
            ws.push(Wait::Flag(flag.clone()));
            kernel::wait(Wait::Any(ws), true);
        }
    }
}
