//! C08 -- secure ($$) keys are invisible and immutable to non-administrators.
//! Paired deterministic runs: worlds A and B are identical (same seed, program, schedule) except
//! for the values administrators store under $$ keys; everything the low session receives must be
//! byte-identical, and no low command may change a $$ key.
use crate::common::*;
use crate::kv::*;
use crate::world::*;
use nundb_verif_rt::kernel::{self, Rng};
use nundb_verif_rt::sim::{run_sim, SimConfig};
use serde::{Deserialize, Serialize};
use serde_json::{json, Value as Json};
use std::collections::BTreeMap;

pub struct C08;

#[derive(Clone, Debug, Serialize, Deserialize, PartialEq)]
pub enum Step {
    /// command of the low (non-administrator) session; `{K}` is replaced by the key argument
    Low { template: String, key: String },
    /// administrator stores a (world-dependent) value under a $$ key
    AdminSetSecret { key: String },
    /// administrator creates a version conflict on a $$ key of the arbiter database
    AdminConflictSecret { key: String },
    /// administrator writes a public key (same in both worlds)
    AdminSetPublic { key: String },
    AdminRemoveToken,
    /// the administrator tries to get rid of the token through another command that ends in a remove
    AdminRemoveTokenVia { line: String },
}

#[derive(Clone, Debug, Serialize, Deserialize)]
pub struct Program {
    /// the low session logs in with the database token (false) or as user `lo` (true)
    pub user_session: bool,
    pub low_permissions: String,
    pub steps: Vec<Step>,
    /// how the low session talks to the node: "" / "direct" (process_request, as the unit tests do), or over
    /// the real front ends "tcp", "ws", "http" (HTTP: every command is a request = a session of its own,
    /// `login;command`)
    #[serde(default)]
    pub low_transport: String,
    /// the administrator's steps are sent as HTTP requests (`auth ..;use-db d tok;command`), so that the
    /// same HTTP workers serve administrators and the low session
    #[serde(default)]
    pub admin_http: bool,
}

/// Over a wire a conflict notice (`resolve <op> <db> <version> <key> <old> <new>`, sent without a line end)
/// arrives in front of whatever the session receives next: separate the notices (notifications, reported
/// as `<async>`) from the replies of the command.  The new value of a notice is one of the harness's own
/// `cf<world><n>` tokens.
fn split_notices(lines: Vec<String>, notes: &mut Vec<String>) -> Vec<String> {
    let mut out = Vec::new();
    for l in lines {
        let mut rest = l.as_str();
        while rest.starts_with("resolve ") {
            let cut = rest.find(" cf").and_then(|i| {
                let tail = &rest[i + 3..];
                let mut n = 0;
                for (j, ch) in tail.char_indices() {
                    if j == 0 {
                        if ch != 'A' && ch != 'B' {
                            return None;
                        }
                    } else if !ch.is_ascii_digit() {
                        break;
                    }
                    n = j + ch.len_utf8();
                }
                Some(i + 3 + n)
            });
            match cut {
                Some(c) if c > 0 => {
                    notes.push(rest[..c].to_string());
                    rest = &rest[c..];
                }
                _ => break,
            }
        }
        if !(rest.is_empty() && l.starts_with("resolve ")) {
            out.push(rest.to_string());
        }
    }
    out
}

enum LowConn {
    Direct(Session),
    Tcp(WireClient, Vec<String>),
    Ws(WsClient, Vec<String>),
    Http { addr: String, login: String },
}

impl LowConn {
    /// everything the low session receives for this command (replies and notifications)
    fn exec(&mut self, line: &str) -> Vec<String> {
        match self {
            LowConn::Direct(s) => {
                let r = s.exec(line);
                let mut lines = r.msgs.clone();
                lines.push(format!("<resp:{}>", match &r.resp {
                    Resp::Ok => "ok".to_string(),
                    Resp::Set { key, value } => format!("set {} {}", key, value),
                    Resp::Value { key, value, version } => format!("value {} {} {}", key, value, version),
                    Resp::Error(m) => format!("error {}", m),
                    Resp::VersionError { old_version, version } => format!("version-error {} {}", old_version, version),
                }));
                lines
            }
            LowConn::Tcp(c, notes) => split_notices(c.request(line, 3_000).unwrap_or_else(|| vec!["<no reply>".into()]), notes),
            LowConn::Ws(c, notes) => split_notices(c.request(line, 3_000).unwrap_or_else(|| vec!["<no reply>".into()]), notes),
            LowConn::Http { addr, login } => match http_request(addr, &format!("{};{}", login, line), 3_000) {
                Some(r) => vec![r],
                None => vec!["<no reply>".into()],
            },
        }
    }
    fn drain(&mut self) -> Vec<String> {
        match self {
            LowConn::Direct(s) => s.drain(),
            LowConn::Tcp(_, notes) | LowConn::Ws(_, notes) => std::mem::take(notes),
            _ => vec![],
        }
    }
}

// (the last ones: a secure name behind a white-space character that is neither blank nor line end -- a different, ordinary key)
const KEYARGS: [&str; 13] = ["$$token", "$$user_x", "$$permission_$x", "$$secret", "$secret", "secret", "*", "$$*", "*$$", "$$", "\t$$secret", "\t$$token", "\u{a0}$$secret"];
const TEMPLATES: [&str; 32] = [
    "get {K}", "get-safe {K}", "set {K} lowval", "set-safe {K} 0 lowval", "set-safe {K} 99 lowval", "remove {K}", "increment {K} 1", "increment {K}",
    "watch {K}", "unwatch {K}", "keys {K}", "ls {K}", "keys", "arbiter", "resolve 7 d {K} 1 lowval", "resolve 7 d {K} -2 lowval",
    "rp 9 get {K}", "rp 9 set {K} lowval", "rp 9 remove {K}", "replicate d {K} 1 lowval", "replicate-remove d {K}", "replicate-increment d {K} 1",
    "create-user {K} tok", "set-permissions x rwix {K}", "snapshot false", "debug pendding-conflitcts", "cluster-state", "unwatch-all", "use-db d {K}", "use-db d x {K}",
    // (users that exist in one world only: a failed login must not tell which)
    "use-db d onlyA guess", "use-db d onlyB guess",
];

fn gen(rng: &mut Rng) -> Program {
    let n = rng.range(1, 6) as usize;
    let mut steps = vec![Step::AdminSetSecret { key: "$$secret".into() }];
    if rng.chance(1, 2) {
        steps.push(Step::Low { template: "arbiter".into(), key: String::new() });
    }
    for _ in 0..n {
        if rng.chance(1, 3) {
            steps.push(match rng.below(6) {
                0 | 1 => Step::AdminSetSecret { key: ["$$secret", "$$user_x", "$$permission_$x"][rng.below(3) as usize].to_string() },
                2 | 3 => Step::AdminConflictSecret { key: "$$secret".into() },
                4 => Step::AdminSetPublic { key: ["secret", "$secret"][rng.below(2) as usize].to_string() },
                _ => {
                    if rng.chance(1, 2) {
                        Step::AdminRemoveToken
                    } else {
                        Step::AdminRemoveTokenVia { line: ["replicate-remove d $$token", "rp 9 remove $$token", "rp 9 replicate-remove d $$token"][rng.below(3) as usize].to_string() }
                    }
                }
            });
        }
        steps.push(Step::Low {
            template: TEMPLATES[rng.below(TEMPLATES.len() as u64) as usize].to_string(),
            key: KEYARGS[rng.below(KEYARGS.len() as u64) as usize].to_string(),
        });
    }
    let user_session = rng.chance(1, 2);
    let low_permissions = ["rwix *", "r *", "rw s*", "rwix $*"][rng.below(4) as usize].to_string();
    // half of the cases go through the real front ends
    let (low_transport, admin_http) = match rng.below(8) {
        0 => ("tcp", false),
        1 => ("ws", false),
        2 => ("http", false),
        3 => ("http", true),
        _ => ("direct", false),
    };
    Program { user_session, low_permissions, steps, low_transport: low_transport.to_string(), admin_http }
}

struct WorldResult {
    setup_ok: bool,
    /// (step index, lines received by the low session during that step)
    transcript: Vec<(usize, String, Vec<String>)>,
    violations: Vec<Violation>,
    low_commands: u64,
}

fn secure_view(d: &BTreeMap<String, Entry>) -> BTreeMap<String, (String, i32, bool)> {
    d.iter().filter(|(k, _)| k.starts_with("$$")).map(|(k, e)| (k.clone(), (e.value.clone(), e.version, e.deleted))).collect()
}

fn execute(prog: Program, variant: &'static str) -> WorldResult {
    let mut out = WorldResult { setup_ok: false, transcript: vec![], violations: vec![], low_commands: 0 };
    let w = World::new(1);
    w.boot(0, "");
    if !w.wait_primary(0, 5_000) {
        return out;
    }
    let dbs = match w.dbs(0) {
        Some(d) => d,
        None => return out,
    };
    sleep_ms(100);
    let mut admin = Session::admin(&dbs);
    if admin.exec("create-db d tok arbiter").resp.is_err() {
        return out;
    }
    admin.exec("use-db d tok");
    // secrets: same shape, different content per world (same length keeps everything else identical)
    let sv = |name: &str, n: u32| format!("{}{}{}", name, variant, n);
    admin.exec(&format!("set $$secret {}", sv("sec", 0)));
    admin.exec(&format!("set $$secret {}", sv("sec", 1)));
    admin.exec(&format!("create-user x {}", sv("xtok", 0)));
    // x is a user the low session never logs in as: its permission list (a $$ key) differs between the
    // worlds in a way that would show on the public keys if it were ever consulted for the low session
    admin.exec(&format!("set-permissions x {}", if variant == "A" { "rwix s*" } else { "rwix $s*" }));
    // a secure key whose very name differs between the worlds (listings must not show it)
    admin.exec(&format!("set $$only{} 1", variant));
    // a user whose very existence differs between the worlds
    admin.exec(&format!("create-user only{} otok", variant));
    admin.exec("create-user lo lotok");
    admin.exec(&format!("set-permissions lo {}", prog.low_permissions));
    admin.exec("set secret pub1");
    admin.exec("set $secret pub2");
    let login = if prog.user_session { "use-db d lo lotok" } else { "use-db d tok" };
    let mut low = match prog.low_transport.as_str() {
        "tcp" => {
            let mut c = match WireClient::connect(&w.nodes[0].tcp) {
                Some(c) => c,
                None => return out,
            };
            if !c.greeting(2_000) || c.request(login, 2_000).is_none() {
                return out;
            }
            LowConn::Tcp(c, Vec::new())
        }
        "ws" => {
            let mut c = match WsClient::connect(&w.nodes[0].ws) {
                Some(c) => c,
                None => return out,
            };
            if c.request(login, 2_000).is_none() {
                return out;
            }
            LowConn::Ws(c, Vec::new())
        }
        "http" => LowConn::Http { addr: w.nodes[0].http.clone(), login: login.to_string() },
        _ => {
            let mut low = Session::new(&dbs);
            if low.exec(login).resp.is_err() {
                return out;
            }
            LowConn::Direct(low)
        }
    };
    // administrator steps: direct, or as HTTP requests served by the same workers as the low session's
    let http_addr = w.nodes[0].http.clone();
    let admin_http = prog.admin_http;
    let admin_do = |admin: &mut Session, cmd: &str| {
        if admin_http {
            let _ = http_request(&http_addr, &format!("auth {} {};use-db d tok;{}", USER, PWD, cmd), 3_000);
        } else {
            admin.exec(cmd);
        }
    };
    out.setup_ok = true;
    let mut n = 1u32;
    for (i, step) in prog.steps.iter().enumerate() {
        match step {
            Step::AdminSetSecret { key } => {
                n += 1;
                let val = if key.starts_with("$$permission") { (if variant == "A" { "rwix $s*" } else { "rwix s*" }).to_string() } else { sv("v", n) };
                admin_do(&mut admin, &format!("set {} {}", key, val));
            }
            Step::AdminConflictSecret { key } => {
                n += 1;
                admin_do(&mut admin, &format!("set-safe {} 0 {}", key, sv("cf", n)));
            }
            Step::AdminSetPublic { key } => {
                n += 1;
                admin_do(&mut admin, &format!("set {} pub{}", key, n));
            }
            Step::AdminRemoveToken => {
                let r = admin.exec("remove $$token");
                let still = dump_db(&dbs, "d").and_then(|d| d.get("$$token").map(|e| (e.value.clone(), e.deleted)));
                if still != Some(("tok".to_string(), false)) {
                    out.violations.push(Violation::new("token-removed", "admin".to_string(), format!("step #{} `remove $$token` by the administrator => {:?}, $$token is now {:?}", i, r.resp, still)));
                }
            }
            Step::AdminRemoveTokenVia { line } => {
                let r = admin.exec(line);
                let still = dump_db(&dbs, "d").and_then(|d| d.get("$$token").map(|e| (e.value.clone(), e.deleted)));
                if still != Some(("tok".to_string(), false)) {
                    out.violations.push(Violation::new("token-removed", format!("admin:{}", line.split(' ').filter(|w| !w.starts_with("$$") && w.parse::<i32>().is_err() && *w != "d").collect::<Vec<_>>().join("+")), format!("step #{} `{}` by the administrator => {:?}, $$token is now {:?}", i, line, r.resp, still)));
                }
            }
            Step::Low { template, key } => {
                let line = template.replace("{K}", key);
                let before = dump_db(&dbs, "d").map(|d| secure_view(&d));
                let lines = low.exec(&line);
                out.low_commands += 1;
                let after = dump_db(&dbs, "d").map(|d| secure_view(&d));
                if before != after {
                    let word = line.split(' ').next().unwrap_or("").to_string();
                    // which key changed
                    let mut changed = String::new();
                    if let (Some(b), Some(a)) = (before.as_ref(), after.as_ref()) {
                        for k in b.keys().chain(a.keys()) {
                            if b.get(k) != a.get(k) {
                                changed = k.clone();
                                break;
                            }
                        }
                    }
                    out.violations.push(Violation::new(
                        "secure-key-mutated",
                        format!("{}:{}", word, if changed.starts_with("$$conflicts") || changed.contains("conflicts") { "conflict-record" } else { "key" }),
                        format!("step #{} low `{}` changed secure key {:?}: {:?} -> {:?}", i, line, changed, before.as_ref().and_then(|b| b.get(&changed)), after.as_ref().and_then(|a| a.get(&changed))),
                    ));
                }
                out.transcript.push((i, line, lines));
            }
        }
        // notifications that arrive outside the low session's own commands (arbiter notices, watches)
        let extra = low.drain();
        if !extra.is_empty() {
            out.transcript.push((i, "<async>".to_string(), extra));
        }
    }
    out
}

impl Property for C08 {
    fn id(&self) -> &'static str {
        "C08"
    }
    fn scenarios(&self) -> Vec<(&'static str, u32)> {
        vec![("paired-worlds", 1)]
    }
    fn budget(&self) -> (u64, u64) {
        (200_000, 4_000_000)
    }
    fn rule(&self) -> &'static str {
        "a non-administrator session (database token, or user token with one of 4 permission lists; half of the cases as a direct process_request session, the others over the real TCP / WebSocket / HTTP front ends -- over HTTP every command is a request of its own and in some cases the administrator's steps are HTTP requests too, served by the same workers) sends 1-6 commands built from 30 command templates (every data command, keys/ls patterns, watch/unwatch, arbiter, resolve, rp-wrapped commands, replicate*, create-user, set-permissions, use-db with secure names as credentials) x 10 key arguments ($$token, $$user_x, $$permission_$x, $$secret, $secret, secret, *, $$*, *$$, $$), interleaved with administrator steps that store world-dependent values under $$ keys, create version conflicts on a $$ key of the (arbiter-strategy) database, write public keys and try to remove $$token. Each case is run twice in identical simulations (same seed and schedule) that differ only in the secret values: the two transcripts of the low session (replies and notifications) must be identical, no low command may change any $$ key, and $$token must survive remove by anyone. Non-trivial: the low session received at least one line. distinct = distinct programs."
    }
    fn assumptions(&self) -> Vec<String> {
        vec![
            "no fault dimension; the deciding power is seeded sequence generation plus the two-run non-interference oracle, which relies on the simulator's determinism".into(),
            "secret values have the same length in both worlds; the low user's own token and permission list are the same in both worlds".into(),
        ]
    }
    fn components(&self) -> Json {
        json!({"real": ["process_request", "security", "consensus_ops (arbiter notices)", "bo::Database (watchers, list_keys)", "tcp_ops / ws_ops handler / http_ops workers (half of the cases)"], "simulated": ["threads", "clock", "TCP", "ws and tiny_http wire layers"], "stub": []})
    }
    fn run_one(&self, scenario: &str, ctx: &RunCtx) -> RunReport {
        let mut rng = Rng::new(ctx.seed);
        let prog: Program = match &ctx.program {
            Some(p) => serde_json::from_value(p.clone()).expect("program"),
            None => gen(&mut rng),
        };
        let policy = policy_for(Rng::new(ctx.seed ^ 0x9011c7).next_u64());
        let mut rep = RunReport { seed: ctx.seed, scenario: scenario.to_string(), ..Default::default() };
        rep.program = serde_json::to_value(&prog).unwrap();
        let mut results = Vec::new();
        for variant in ["A", "B"] {
            let mut cfg = SimConfig::new(ctx.seed ^ 0xc08);
            cfg.policy = policy;
            cfg.trace = ctx.trace && variant == "A";
            let p2 = prog.clone();
            let outcome = run_sim(cfg, move || execute(p2, variant));
            clear_registry();
            if variant == "A" {
                rep.absorb_kernel(&outcome.kernel);
            }
            if let Some(p) = outcome.harness_panic {
                rep.harness_error = Some(p);
                return rep;
            }
            for p in outcome.kernel.panics.iter() {
                rep.violations.push(Violation::new("panic", p.location.rsplit('/').next().unwrap_or("?").to_string(), format!("{} at {}", p.message, p.location)));
            }
            match outcome.result {
                Some(r) => results.push(r),
                None => {
                    rep.discarded = Some("truncated".into());
                    return rep;
                }
            }
        }
        let (a, b) = (&results[0], &results[1]);
        if !a.setup_ok || !b.setup_ok {
            rep.discarded = Some("setup_unstable".into());
            return rep;
        }
        rep.violations.extend(a.violations.clone());
        for v in b.violations.iter() {
            if !rep.violations.iter().any(|x| x.sig() == v.sig()) {
                rep.violations.push(v.clone());
            }
        }
        // non-interference
        let n = a.transcript.len().max(b.transcript.len());
        for i in 0..n {
            let (ta, tb) = (a.transcript.get(i), b.transcript.get(i));
            if ta.map(|t| (&t.1, &t.2)) != tb.map(|t| (&t.1, &t.2)) {
                let (cmd, la, lb) = match (ta, tb) {
                    (Some(x), Some(y)) => (x.1.clone(), x.2.clone(), y.2.clone()),
                    (Some(x), None) => (x.1.clone(), x.2.clone(), vec![]),
                    (None, Some(y)) => (y.1.clone(), vec![], y.2.clone()),
                    _ => continue,
                };
                let word = cmd.split(' ').next().unwrap_or("").to_string();
                // the template (command word + shape of the key argument) that leaked
                let arg = if cmd == "<async>" {
                    "notification".to_string()
                } else {
                    KEYARGS.iter().find(|k| cmd.contains(&format!(" {}", k)) || cmd.ends_with(*k)).map(|k| k.to_string()).unwrap_or_else(|| "-".into())
                };
                rep.violations.push(Violation::new(
                    "leak",
                    format!("{}:{}", word, arg),
                    format!("low `{}`: world A answered {:?}, world B answered {:?} -- the worlds differ only in the contents of $$ keys", cmd, la, lb),
                ));
                break;
            }
        }
        rep.nontrivial = a.low_commands > 0;
        rep.counters.insert("low_commands".into(), a.low_commands);
        rep.counters.insert("paired_runs".into(), 2);
        rep.case_hash = hash_str(&rep.program.to_string());
        let _ = kernel::MS;
        rep
    }
    fn shrink(&self, _scenario: &str, program: &Json) -> Vec<Json> {
        let p: Program = match serde_json::from_value(program.clone()) {
            Ok(p) => p,
            Err(_) => return vec![],
        };
        let mut out = Vec::new();
        for i in 0..p.steps.len() {
            if p.steps.len() > 1 {
                let mut q = p.clone();
                q.steps.remove(i);
                out.push(serde_json::to_value(&q).unwrap());
            }
        }
        out
    }
}
