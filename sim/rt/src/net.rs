//! In-memory TCP: per connection two FIFO byte pipes with delivery stamps.  No loss, duplication
//! or reordering inside an established stream (the TCP contract).  Faults: latency/jitter,
//! partitions (bytes held), connection refused, reset on kill, close.
use crate::kernel::{Ready, Rng};
use std::collections::{BTreeMap, VecDeque};

#[derive(Debug)]
pub struct Chunk {
    pub at: u64,
    pub data: Vec<u8>,
    pub pos: usize,
}

/// One direction of a connection.
#[derive(Debug)]
pub struct Pipe {
    pub chunks: VecDeque<Chunk>,
    /// writer end closed (reader sees EOF after draining)
    pub writer_closed: bool,
    /// reader end closed (writer gets one free write, then EPIPE)
    pub reader_closed: bool,
    /// the reader closed while data it had not read was queued: the peer answers with a reset, the
    /// writer's next write fails at once (no free write)
    pub reset: bool,
    pub wrote_after_close: bool,
    pub last_at: u64,
    pub from: Option<u32>,
    pub to: Option<u32>,
    pub from_label: String,
    pub to_label: String,
    pub line_buf: Vec<u8>,
    pub total_bytes: u64,
}

#[derive(Debug)]
pub struct Endpoint {
    pub rx: usize,
    pub tx: usize,
    pub owner: Option<(u32, u32)>,
    pub closed: bool,
    /// the peer's reset has been reported to this endpoint's reader (ECONNRESET is returned once,
    /// after the queued data and before the end of the stream, as Linux does)
    pub reset_reported: bool,
}

#[derive(Debug)]
pub struct Listener {
    pub addr: String,
    pub node: Option<u32>,
    pub gen: u32,
    pub queue: VecDeque<usize>,
    pub open: bool,
}

#[derive(Clone, Debug)]
pub struct LineRecord {
    pub seq: u64,
    pub at: u64,
    /// when the receiver can read it (write time + link latency)
    pub deliver_at: u64,
    pub from: Option<u32>,
    pub to: Option<u32>,
    pub from_label: String,
    pub to_label: String,
    pub line: String,
}

#[derive(Debug)]
pub struct Net {
    pub pipes: Vec<Pipe>,
    pub endpoints: Vec<Endpoint>,
    pub listeners: Vec<Listener>,
    pub by_addr: BTreeMap<String, usize>,
    /// which node an address belongs to (known even while nothing listens there)
    pub addr_owner: BTreeMap<String, u32>,
    /// public address -> the address the node's listener is bound to (a node behind address translation)
    pub aliases: BTreeMap<String, String>,
    /// (min,max) one-way latency in ns applied to node<->node traffic
    pub latency: (u64, u64),
    /// per ordered node pair override
    pub link_latency: BTreeMap<(u32, u32), (u64, u64)>,
    /// unordered pairs currently partitioned
    pub partitions: Vec<(u32, u32)>,
    /// directed holds (from, to): bytes written by `from` towards `to` stay queued (FIFO kept) until released
    pub holds: Vec<(u32, u32)>,
    /// TCP is a byte stream: with this probability (per 256) a write of two or more bytes reaches the reader as two
    /// segments, the second one up to `segment_gap` ns later (what a reader sees when a message does not fit one
    /// packet or the sender's buffer drains in pieces); only on links between `segment_scope` endpoints
    pub segment_p: u32,
    pub segment_gap: u64,
    /// 0 = every connection, 1 = connections between two nodes only
    pub segment_scope: u8,
    pub segments_split: u64,
    pub line_log: Option<Vec<LineRecord>>,
    pub line_seq: u64,
    /// number of node-to-node lines ever written (cheap activity counter)
    pub inter_node_lines: u64,
    pub inter_node_bytes: u64,
    pub last_activity: u64,
    pub max_backlog: usize,
}

impl Net {
    pub fn new() -> Net {
        Net {
            pipes: Vec::new(),
            endpoints: Vec::new(),
            listeners: Vec::new(),
            by_addr: BTreeMap::new(),
            addr_owner: BTreeMap::new(),
            aliases: BTreeMap::new(),
            latency: (0, 0),
            link_latency: BTreeMap::new(),
            partitions: Vec::new(),
            holds: Vec::new(),
            segment_p: 0,
            segment_gap: 2_000_000,
            segment_scope: 0,
            segments_split: 0,
            line_log: None,
            line_seq: 0,
            inter_node_lines: 0,
            inter_node_bytes: 0,
            last_activity: 0,
            max_backlog: 0,
        }
    }

    pub fn partitioned(&self, a: Option<u32>, b: Option<u32>) -> bool {
        match (a, b) {
            (Some(a), Some(b)) => self.partitions.iter().any(|&(x, y)| (x == a && y == b) || (x == b && y == a)) || self.holds.iter().any(|&(x, y)| x == a && y == b),
            _ => false,
        }
    }

    pub fn bind(&mut self, addr: &str, node: Option<u32>, gen: u32) -> Result<usize, ()> {
        if let Some(&l) = self.by_addr.get(addr) {
            if self.listeners[l].open {
                return Err(());
            }
        }
        self.listeners.push(Listener { addr: addr.to_string(), node, gen, queue: VecDeque::new(), open: true });
        let id = self.listeners.len() - 1;
        self.by_addr.insert(addr.to_string(), id);
        Ok(id)
    }

    pub fn lookup(&self, addr: &str) -> Option<usize> {
        let addr = self.aliases.get(addr).map(|a| a.as_str()).unwrap_or(addr);
        let l = *self.by_addr.get(addr)?;
        if self.listeners[l].open {
            Some(l)
        } else {
            None
        }
    }

    fn new_pipe(&mut self, from: Option<u32>, to: Option<u32>, fl: &str, tl: &str) -> usize {
        self.pipes.push(Pipe {
            chunks: VecDeque::new(),
            writer_closed: false,
            reader_closed: false,
            wrote_after_close: false,
            reset: false,
            last_at: 0,
            from,
            to,
            from_label: fl.to_string(),
            to_label: tl.to_string(),
            line_buf: Vec::new(),
            total_bytes: 0,
        });
        self.pipes.len() - 1
    }

    /// Create a connection to listener `l`; returns the client endpoint id.
    pub fn connect(&mut self, l: usize, from: Option<(u32, u32)>, from_label: &str) -> usize {
        let to_node = self.listeners[l].node;
        let to_gen = self.listeners[l].gen;
        let to_label = self.listeners[l].addr.clone();
        let c2s = self.new_pipe(from.map(|f| f.0), to_node, from_label, &to_label);
        let s2c = self.new_pipe(to_node, from.map(|f| f.0), &to_label, from_label);
        self.endpoints.push(Endpoint { rx: s2c, tx: c2s, owner: from, closed: false, reset_reported: false });
        let client = self.endpoints.len() - 1;
        self.endpoints.push(Endpoint { rx: c2s, tx: s2c, owner: to_node.map(|n| (n, to_gen)), closed: false, reset_reported: false });
        let server = self.endpoints.len() - 1;
        self.listeners[l].queue.push_back(server);
        client
    }

    pub fn accept_ready(&self, l: usize) -> Ready {
        let li = &self.listeners[l];
        if !li.queue.is_empty() || !li.open {
            Ready::Yes
        } else {
            Ready::No
        }
    }

    pub fn pipe_ready(&self, p: usize, now: u64) -> Ready {
        let pipe = &self.pipes[p];
        if self.partitioned(pipe.from, pipe.to) {
            return Ready::No;
        }
        match pipe.chunks.front() {
            Some(c) => {
                if c.at <= now {
                    Ready::Yes
                } else {
                    Ready::At(c.at)
                }
            }
            None => {
                if pipe.writer_closed || pipe.reader_closed {
                    Ready::Yes
                } else {
                    Ready::No
                }
            }
        }
    }

    /// Returns Ok(n) bytes accepted or Err(()) for EPIPE.
    pub fn write(&mut self, ep: usize, data: &[u8], now: u64, rng: &mut Rng) -> Result<usize, ()> {
        let tx = self.endpoints[ep].tx;
        if self.endpoints[ep].closed {
            return Err(());
        }
        let (from, to) = (self.pipes[tx].from, self.pipes[tx].to);
        if self.pipes[tx].reader_closed {
            // real TCP: the first write after the peer closed succeeds (the RST comes back later)
            if self.pipes[tx].wrote_after_close || self.pipes[tx].reset {
                return Err(());
            }
            self.pipes[tx].wrote_after_close = true;
            return Ok(data.len());
        }
        let lat = if from.is_some() && to.is_some() && from != to {
            let (lo, hi) = self
                .link_latency
                .get(&(from.unwrap(), to.unwrap()))
                .copied()
                .unwrap_or(self.latency);
            if hi > lo {
                lo + rng.below(hi - lo + 1)
            } else {
                lo
            }
        } else {
            0
        };
        let inter = from.is_some() && to.is_some() && from != to;
        let (seg_p, seg_gap, seg_scope) = (self.segment_p, self.segment_gap, self.segment_scope);
        let mut split = false;
        let pipe = &mut self.pipes[tx];
        let at = (now + lat).max(pipe.last_at);
        pipe.last_at = at;
        pipe.total_bytes += data.len() as u64;
        let in_scope = seg_scope == 0 || inter;
        if seg_p > 0 && in_scope && data.len() >= 2 && (rng.below(256) as u32) < seg_p {
            // the cut falls anywhere, also inside a multi-byte character or right before the line feed
            let cut = 1 + rng.below(data.len() as u64 - 1) as usize;
            let gap = 1 + rng.below(seg_gap.max(1));
            pipe.chunks.push_back(Chunk { at, data: data[..cut].to_vec(), pos: 0 });
            let at2 = at + gap;
            pipe.last_at = at2;
            pipe.chunks.push_back(Chunk { at: at2, data: data[cut..].to_vec(), pos: 0 });
            split = true;
        } else {
            pipe.chunks.push_back(Chunk { at, data: data.to_vec(), pos: 0 });
        }
        if pipe.chunks.len() > self.max_backlog {
            self.max_backlog = pipe.chunks.len();
        }
        // line accounting
        // (only the new bytes are searched: a line of many megabytes written in small pieces must not cost a scan of
        //  everything before it per piece; what the accounting keeps of one line is capped at 1 MiB)
        let mut lines: Vec<String> = Vec::new();
        let mut start = 0usize;
        for (i, b) in data.iter().enumerate() {
            if *b == b'\n' {
                let mut l: Vec<u8> = std::mem::take(&mut pipe.line_buf);
                if l.len() < (1 << 20) {
                    l.extend_from_slice(&data[start..i]);
                }
                lines.push(String::from_utf8_lossy(&l).to_string());
                start = i + 1;
            }
        }
        if pipe.line_buf.len() < (1 << 20) {
            pipe.line_buf.extend_from_slice(&data[start..]);
        }
        let (fl, tl) = (pipe.from_label.clone(), pipe.to_label.clone());
        if split {
            self.segments_split += 1;
        }
        if inter {
            self.inter_node_bytes += data.len() as u64;
            self.inter_node_lines += lines.len() as u64;
            self.last_activity = now;
        }
        if let Some(log) = self.line_log.as_mut() {
            for line in lines {
                self.line_seq += 1;
                log.push(LineRecord {
                    seq: self.line_seq,
                    at: now,
                    deliver_at: at,
                    from,
                    to,
                    from_label: fl.clone(),
                    to_label: tl.clone(),
                    line,
                });
            }
        }
        Ok(data.len())
    }

    /// Non-blocking read: Some(n) bytes (0 = EOF) or None = would block.
    pub fn read(&mut self, ep: usize, buf: &mut [u8], now: u64) -> Option<usize> {
        let rx = self.endpoints[ep].rx;
        if self.endpoints[ep].closed {
            return Some(0);
        }
        let part = self.partitioned(self.pipes[rx].from, self.pipes[rx].to);
        let pipe = &mut self.pipes[rx];
        if part {
            return None;
        }
        let mut n = 0;
        while n < buf.len() {
            match pipe.chunks.front_mut() {
                Some(c) if c.at <= now => {
                    let take = (buf.len() - n).min(c.data.len() - c.pos);
                    buf[n..n + take].copy_from_slice(&c.data[c.pos..c.pos + take]);
                    c.pos += take;
                    n += take;
                    if c.pos == c.data.len() {
                        pipe.chunks.pop_front();
                    }
                }
                _ => break,
            }
        }
        if n > 0 {
            Some(n)
        } else if pipe.chunks.is_empty() && pipe.writer_closed {
            Some(0)
        } else {
            None
        }
    }

    /// After `read` returned end-of-stream: true (once) when the peer had closed with data of ours unread,
    /// i.e. it answered with a reset and the reader is told ECONNRESET before it sees the end of the stream.
    pub fn take_reset(&mut self, ep: usize) -> bool {
        let tx = self.endpoints[ep].tx;
        if self.endpoints[ep].closed || self.endpoints[ep].reset_reported || !self.pipes[tx].reset {
            return false;
        }
        self.endpoints[ep].reset_reported = true;
        true
    }

    pub fn close_endpoint(&mut self, ep: usize) {
        if self.endpoints[ep].closed {
            return;
        }
        self.endpoints[ep].closed = true;
        let (rx, tx) = (self.endpoints[ep].rx, self.endpoints[ep].tx);
        self.pipes[tx].writer_closed = true;
        self.pipes[rx].reader_closed = true;
        if !self.pipes[rx].chunks.is_empty() {
            self.pipes[rx].reset = true;
        }
    }

    pub fn close_listener(&mut self, l: usize) {
        self.listeners[l].open = false;
        // pending, never accepted connections are reset
        let q: Vec<usize> = self.listeners[l].queue.drain(..).collect();
        for ep in q {
            self.close_endpoint(ep);
        }
    }

    /// Process kill: every socket owned by (node, gen) closes; its listeners unbind.
    pub fn close_node(&mut self, node: u32, gen: u32, _now: u64) {
        for ep in 0..self.endpoints.len() {
            if self.endpoints[ep].owner == Some((node, gen)) {
                self.close_endpoint(ep);
            }
        }
        for l in 0..self.listeners.len() {
            if self.listeners[l].node == Some(node) && self.listeners[l].gen == gen && self.listeners[l].open {
                self.close_listener(l);
            }
        }
    }

    pub fn in_flight_inter_node(&self) -> bool {
        self.pipes.iter().any(|p| {
            !p.chunks.is_empty() && !p.reader_closed && p.from.is_some() && p.to.is_some() && p.from != p.to
        })
    }

    /// true when some undelivered byte is still in flight between two live endpoints
    pub fn in_flight(&self) -> bool {
        self.pipes.iter().any(|p| !p.chunks.is_empty() && !p.reader_closed)
    }
}
