//! C11 -- a crash during a snapshot never damages previously persisted data.
//! For each generated dataset pair (D0 persisted, D1 in memory) the snapshot's mutating disk
//! calls are counted in a crash-free run, then the node is killed at crash points of that range
//! (all of them in the thorough tier) and restarted on the surviving disk.
use crate::common::*;
use crate::kv::*;
use crate::world::*;
use nundb_verif_rt::kernel::{with, Rng};
use nundb_verif_rt::sim::{run_sim, SimConfig};
use serde::{Deserialize, Serialize};
use serde_json::{json, Value as Json};
use std::collections::BTreeMap;

pub struct C11;

#[derive(Clone, Debug, Serialize, Deserialize, PartialEq)]
pub enum Op {
    Set { db: usize, key: String, val: String },
    Remove { db: usize, key: String },
    Inc { db: usize, key: String, by: i32 },
}

#[derive(Clone, Debug, Serialize, Deserialize)]
pub struct Program {
    pub dbs: Vec<String>,
    /// builds D0 (then every database is snapshotted, incrementally)
    pub pre: Vec<Op>,
    /// optional second round + reclaiming snapshot before D0 is final (exercises rewritten files)
    pub pre_reclaim: bool,
    /// D0 -> D1
    pub mid: Vec<Op>,
    /// the interrupted snapshot
    pub reclaim: bool,
    /// which database is snapshotted when the crash happens
    pub target: usize,
    /// the target database has never been snapshotted before (its first snapshot is interrupted)
    #[serde(default)]
    pub fresh_target: bool,
    /// crash points to try: None = decided by the tier (sample / all)
    pub points: Option<Vec<(u64, bool)>>,
}

const DBN: [&str; 2] = ["d", "e"];
const KEYS: [&str; 4] = ["ka", "kb", "x", "yy"];

fn gen_ops(rng: &mut Rng, ndbs: usize, n: usize, uniq: &mut u32, removes: bool) -> Vec<Op> {
    let mut v = Vec::new();
    for _ in 0..n {
        let db = rng.below(ndbs as u64) as usize;
        let key = KEYS[rng.below(KEYS.len() as u64) as usize].to_string();
        v.push(match rng.below(10) {
            0..=5 => Op::Set { db, key, val: gen_value(rng, uniq) },
            6 | 7 => {
                if removes {
                    Op::Remove { db, key }
                } else {
                    Op::Set { db, key, val: gen_value(rng, uniq) }
                }
            }
            _ => Op::Inc { db, key, by: rng.range(1, 5) as i32 },
        });
    }
    v
}

fn gen(rng: &mut Rng) -> Program {
    let ndbs = rng.range(1, 2) as usize;
    let strats = ["none", "newer", "arbiter"];
    let dbs = (0..ndbs).map(|_| strats[rng.below(3) as usize].to_string()).collect();
    let mut uniq = 0;
    let npre = rng.range(1, 6) as usize;
    let pre = gen_ops(rng, ndbs, npre, &mut uniq, true);
    let nmid = rng.range(1, 5) as usize;
    let mut mid = gen_ops(rng, ndbs, nmid, &mut uniq, true);
    if rng.chance(1, 4) {
        // many new keys whose records are long in the keys file and short in the values file (or the
        // other way round): the two 250-byte writer buffers then spill at different moments and a
        // record can be cut anywhere
        let n = rng.range(6, 30) as usize;
        let long_values = rng.chance(1, 4);
        let db = rng.below(ndbs as u64) as usize;
        for j in 0..n {
            uniq += 1;
            let key = format!("{}{}", "n".repeat(rng.range(1, 70) as usize), j);
            let val = if long_values { format!("{}{}", "v".repeat(rng.range(1, 90) as usize), uniq) } else { format!("s{}", uniq) };
            mid.push(Op::Set { db, key, val });
        }
    }
    Program {
        dbs,
        pre,
        pre_reclaim: rng.chance(1, 4),
        mid,
        reclaim: rng.chance(1, 2),
        target: rng.below(ndbs as u64) as usize,
        fresh_target: rng.chance(1, 5),
        points: None,
    }
}

type View = BTreeMap<String, (String, i32)>;

struct Outcome {
    setup_ok: bool,
    /// number of mutating disk calls between the snapshot request and its completion
    span: u64,
    crashed: bool,
    crash_desc: String,
    violations: Vec<Violation>,
}

fn apply(admin: &mut Session, cur: &mut Option<usize>, op: &Op) {
    let (db, line) = match op {
        Op::Set { db, key, val } => (*db, format!("set {} {}", key, val)),
        Op::Remove { db, key } => (*db, format!("remove {}", key)),
        Op::Inc { db, key, by } => (*db, format!("increment {} {}", key, by)),
    };
    if *cur != Some(db) {
        admin.exec(&format!("use-db {} tok{}", DBN[db], db));
        *cur = Some(db);
    }
    admin.exec(&line);
}

/// One simulated execution; `crash` = Some((k, after)): kill at the k-th mutating disk call
/// counted from the snapshot request.
fn execute(prog: Program, crash: Option<(u64, bool)>) -> Outcome {
    let mut out = Outcome { setup_ok: false, span: 0, crashed: false, crash_desc: String::new(), violations: vec![] };
    let w = World::new(1);
    w.boot(0, "");
    if !w.wait_primary(0, 5_000) {
        return out;
    }
    let dbs = match w.dbs(0) {
        Some(d) => d,
        None => return out,
    };
    let mut admin = Session::admin(&dbs);
    let ndbs = prog.dbs.len();
    for (i, s) in prog.dbs.iter().enumerate() {
        if admin.exec(&format!("create-db {} tok{} {}", DBN[i], i, s)).resp.is_err() {
            return out;
        }
    }
    let mut cur = None;
    for op in prog.pre.iter() {
        apply(&mut admin, &mut cur, op);
    }
    // D0: every database completes a snapshot (except a fresh target: nothing of it is on disk)
    let all = (0..ndbs)
        .filter(|i| !(prog.fresh_target && *i == prog.target && ndbs > 1))
        .map(|i| DBN[i])
        .collect::<Vec<_>>()
        .join("|");
    let fresh = prog.fresh_target && ndbs > 1;
    if cur.is_none() {
        admin.exec(&format!("use-db {} tok{}", DBN[0], 0));
        cur = Some(0);
    }
    if prog.pre_reclaim {
        admin.exec(&format!("snapshot false {}", all));
        if !w.declutter_tick(0, 20_000) {
            return out;
        }
        admin.exec(&format!("snapshot true {}", all));
    } else {
        admin.exec(&format!("snapshot false {}", all));
    }
    if !w.declutter_tick(0, 20_000) || !w.alive(0) {
        return out;
    }
    // let the replication loop finish logging so that the crash window starts quiet
    sleep_ms(20);
    let d0: Vec<View> = (0..ndbs).map(|i| live_view(&dump_db(&dbs, DBN[i]).unwrap_or_default())).collect();
    let meta0: Vec<Option<(usize, String)>> = (0..ndbs).map(|i| db_meta(&dbs, DBN[i])).collect();
    for op in prog.mid.iter() {
        apply(&mut admin, &mut cur, op);
    }
    sleep_ms(20);
    let d1: Vec<View> = (0..ndbs).map(|i| live_view(&dump_db(&dbs, DBN[i]).unwrap_or_default())).collect();
    out.setup_ok = true;
    // the snapshot that gets interrupted
    let idx = w.nodes[0].idx;
    let base = with(|k| {
        let n = &mut k.nodes[idx as usize];
        if let Some((c, after)) = crash {
            n.crash_at = Some((n.disk_mutations + c, after));
        }
        n.disk_mutations
    });
    if cur != Some(prog.target) {
        admin.exec(&format!("use-db {} tok{}", DBN[prog.target], prog.target));
    }
    // (the use-db above is inside the window on purpose: it only touches memory)
    admin.exec(&format!("snapshot {}", prog.reclaim));
    let done = w.declutter_tick(0, 20_000);
    sleep_ms(20);
    let (alive, muts, crashed_at) = with(|k| {
        let n = &k.nodes[idx as usize];
        (n.alive, n.disk_mutations, n.crashed_at.clone())
    });
    out.span = muts - base;
    if crash.is_none() {
        if !done || !alive {
            out.violations.push(Violation::new("snapshot-failed", "no-crash", "the snapshot did not complete without any fault"));
        }
        return out;
    }
    if alive {
        // crash point beyond the window: nothing to check
        return out;
    }
    out.crashed = true;
    let (cseq, cdesc) = crashed_at.unwrap_or((0, "?".into()));
    // canonical description of the crash site: operation kind + file kind
    let site = {
        let mut it = cdesc.split(' ');
        let kind = it.next().unwrap_or("?");
        let path = it.next().unwrap_or("?");
        let file = path.rsplit('/').next().unwrap_or(path);
        let fk = if file.ends_with(".keys.old") {
            "keys.old"
        } else if file.ends_with(".values.old") {
            "values.old"
        } else if file.ends_with("-nun.data.keys") {
            "db.keys"
        } else if file.ends_with("-nun.data.values") {
            "db.values"
        } else if file.ends_with("-nun.madadata") {
            "db.meta"
        } else if file == "keys-nun.keys" {
            "keymap"
        } else if file == "is-oplog.valid" {
            "oplog.valid"
        } else if file.ends_with(".op") {
            "oplog"
        } else {
            "other"
        };
        format!("{}:{}:{}", if prog.reclaim { "reclaim" } else { "incremental" }, fk, kind)
    };
    out.crash_desc = format!("#{} {} ({})", cseq - base, cdesc, site);
    // restart on the surviving disk
    set_abort_context(&site);
    w.boot(0, "");
    if !w.wait_primary(0, 8_000) {
        let panic = with(|k| k.panics.last().map(|p| format!("{} at {}", p.message, p.location)));
        out.violations.push(Violation::new(
            "restart-failed",
            site.clone(),
            format!("killed at {}; the node did not start again: {:?}", out.crash_desc, panic),
        ));
        set_abort_context("");
        return out;
    }
    set_abort_context("");
    let dbs2 = match w.dbs(0) {
        Some(d) => d,
        None => return out,
    };
    for i in 0..ndbs {
        let name = DBN[i];
        let got = match dump_db(&dbs2, name) {
            Some(g) => live_view(&g),
            None if fresh && i == prog.target => continue, // never persisted before: no promise
            None => {
                out.violations.push(Violation::new(
                    "lost-database",
                    site.clone(),
                    format!("killed at {}; database {} (snapshotted earlier) does not load", out.crash_desc, name),
                ));
                continue;
            }
        };
        let mut keys: Vec<&String> = d0[i].keys().chain(d1[i].keys()).chain(got.keys()).collect();
        keys.sort();
        keys.dedup();
        for k in keys {
            if k == "$connections" {
                continue;
            }
            let (a, b, g) = (d0[i].get(k), d1[i].get(k), got.get(k));
            // a fresh target had nothing on disk: "before" is absent for every key
            let a = if fresh && i == prog.target { None } else { a };
            let ok = g == a || g == b;
            if !ok {
                let clause = match (a, b, g) {
                    (Some(_), Some(_), None) => "missing-persisted-key",
                    (_, _, Some(_)) if a == b => "changed-neighbour",
                    (_, _, None) => "missing-key",
                    _ => "never-stored-value",
                };
                out.violations.push(Violation::new(
                    clause,
                    site.clone(),
                    format!("killed at {}; database {} key {:?}: before {:?}, being written {:?}, loaded {:?}", out.crash_desc, name, k, a, b, g),
                ));
                break;
            }
        }
        let m = db_meta(&dbs2, name);
        if m != meta0[i] && !(fresh && i == prog.target && m.is_none()) {
            out.violations.push(Violation::new(
                "metadata-changed",
                site.clone(),
                format!("killed at {}; database {} (id,strategy) {:?} -> {:?}", out.crash_desc, name, meta0[i], m),
            ));
        }
    }
    out
}

impl Property for C11 {
    fn id(&self) -> &'static str {
        "C11"
    }
    fn level(&self) -> &'static str {
        "fault_enumeration"
    }
    fn scenarios(&self) -> Vec<(&'static str, u32)> {
        vec![("crash-in-snapshot", 1)]
    }
    fn budget(&self) -> (u64, u64) {
        (1_200, 12_000)
    }
    fn rule(&self) -> &'static str {
        "dataset pairs (D0 persisted by a completed snapshot, D1 = D0 + 1-5 of {set,remove,increment}) over 4 keys x 1-2 databases (a quarter of the datasets add 6-30 new keys with names of 1-70 bytes and short or long values, so that the keys and values writer buffers spill at different moments), values smaller and larger than the 250-byte writer buffers, optional earlier reclaiming snapshot, interrupted snapshot incremental or reclaiming. A crash-free run counts the n mutating disk calls (create/write/rename/unlink/mkdir, including every BufWriter spill, the key map, the oplog-valid flag, metadata and concurrent oplog appends) between the snapshot request and its completion; then the node is killed before and after call k and restarted: quick = 6 sampled (k,before/after) per dataset, thorough = all 2n. evaluations = dataset pairs; coverage.crash_runs = simulated kill+restart executions. Non-trivial: the kill landed inside the window and the node was restarted. distinct = distinct (dataset, crash point)."
    }
    fn assumptions(&self) -> Vec<String> {
        vec![
            "crash model = process kill: completed write/rename/unlink calls survive, user-space buffers are lost (nun-db never fsyncs, power loss is not claimed)".into(),
            "each key may independently be old or new after an interrupted snapshot; $connections is ignored".into(),
        ]
    }
    fn components(&self) -> Json {
        json!({"real": ["storage::disk writer and loader", "disk_ops::snapshot_all_pendding_dbs/snapshot_keys", "main.rs start_db restart path", "replication loop oplog writer"],
               "simulated": ["disk with numbered crash points", "clock", "timer", "threads"], "stub": []})
    }
    fn run_one(&self, scenario: &str, ctx: &RunCtx) -> RunReport {
        let mut rng = Rng::new(ctx.seed);
        let prog: Program = match &ctx.program {
            Some(p) => serde_json::from_value(p.clone()).expect("program"),
            None => gen(&mut rng),
        };
        let mut rep = RunReport { seed: ctx.seed, scenario: scenario.to_string(), ..Default::default() };
        let policy = policy_for(Rng::new(ctx.seed ^ 0x9011c7).next_u64());
        let run = |crash: Option<(u64, bool)>, trace: bool| {
            let mut cfg = SimConfig::new(ctx.seed ^ 0xc11);
            cfg.policy = policy;
            cfg.trace = trace;
            let p2 = prog.clone();
            let o = run_sim(cfg, move || execute(p2, crash));
            clear_registry();
            o
        };
        // counting run
        let base = run(None, false);
        rep.absorb_kernel(&base.kernel);
        if let Some(p) = base.harness_panic {
            rep.harness_error = Some(p);
            return rep;
        }
        let b = match base.result {
            Some(b) => b,
            None => {
                rep.discarded = Some("run cut short".into());
                return rep;
            }
        };
        if !b.setup_ok {
            rep.discarded = Some("setup_unstable".into());
            rep.program = serde_json::to_value(&prog).unwrap();
            return rep;
        }
        rep.violations.extend(b.violations.clone());
        let n = b.span;
        let points: Vec<(u64, bool)> = match &prog.points {
            Some(p) => p.clone(),
            None => {
                let mut all: Vec<(u64, bool)> = (1..=n).flat_map(|k| vec![(k, false), (k, true)]).collect();
                if ctx.tier == Tier::Quick && ctx.program.is_none() {
                    rng.shuffle(&mut all);
                    all.truncate(6);
                    all.sort();
                }
                all
            }
        };
        let mut crash_runs = 0u64;
        let mut landed = 0u64;
        let mut h = hash_str(&serde_json::to_string(&prog).unwrap());
        let mut failing_point: Option<(u64, bool)> = None;
        for (k, after) in points.iter() {
            let o = run(Some((*k, *after)), ctx.trace && prog.points.is_some());
            crash_runs += 1;
            rep.steps += o.kernel.stats.steps;
            if let Some(p) = o.harness_panic {
                rep.harness_error = Some(p);
                return rep;
            }
            if ctx.trace && prog.points.is_some() {
                if let Some(t) = o.kernel.trace.as_ref() {
                    rep.trace = t.clone();
                }
            }
            if let Some(r) = o.result {
                if r.crashed {
                    landed += 1;
                    *rep.faults.entry("kill_at_disk_crash_point".into()).or_insert(0) += 1;
                    h = nundb_verif_rt::kernel::mix(h, k * 2 + *after as u64);
                }
                if !r.violations.is_empty() && failing_point.is_none() {
                    failing_point = Some((*k, *after));
                }
                rep.violations.extend(r.violations);
            }
        }
        // the reported program pins the first failing crash point so that the replay is one run
        let mut shown = prog.clone();
        if prog.points.is_none() {
            if let Some(fp) = failing_point {
                shown.points = Some(vec![fp]);
            }
        }
        rep.program = serde_json::to_value(&shown).unwrap();
        rep.counters.insert("crash_runs".into(), crash_runs);
        rep.counters.insert("crash_landed_in_window".into(), landed);
        rep.counters.insert("snapshot_window_mutations".into(), n);
        if ctx.tier == Tier::Thorough && prog.points.is_none() {
            rep.counters.insert("datasets_with_all_crash_points".into(), 1);
        }
        rep.nontrivial = landed > 0;
        rep.case_hash = h;
        rep
    }
    fn shrink(&self, _scenario: &str, program: &Json) -> Vec<Json> {
        let p: Program = match serde_json::from_value(program.clone()) {
            Ok(p) => p,
            Err(_) => return vec![],
        };
        let mut out = Vec::new();
        // removing operations changes the number of disk calls: drop the pinned point so that the
        // candidate is re-enumerated
        for i in 0..p.pre.len() {
            let mut q = p.clone();
            q.pre.remove(i);
            q.points = None;
            out.push(serde_json::to_value(&q).unwrap());
        }
        for i in 0..p.mid.len() {
            let mut q = p.clone();
            q.mid.remove(i);
            q.points = None;
            out.push(serde_json::to_value(&q).unwrap());
        }
        if p.dbs.len() > 1 && p.target == 0 {
            let mut q = p.clone();
            q.dbs.truncate(1);
            q.pre.retain(|o| matches!(o, Op::Set { db: 0, .. } | Op::Remove { db: 0, .. } | Op::Inc { db: 0, .. }));
            q.mid.retain(|o| matches!(o, Op::Set { db: 0, .. } | Op::Remove { db: 0, .. } | Op::Inc { db: 0, .. }));
            q.points = None;
            out.push(serde_json::to_value(&q).unwrap());
        }
        if p.pre_reclaim {
            let mut q = p.clone();
            q.pre_reclaim = false;
            q.points = None;
            out.push(serde_json::to_value(&q).unwrap());
        }
        out
    }
}
