#!/bin/bash
# Development tool: run every seeded change against its own property's quick check (plus the checks named in
# seeded/ALSO.txt for changes that another property's check is expected to see), in N parallel lanes.
#   tools/matrix.sh <out file> [lanes=3] [filter regex]
OUT=${1:-/verif/seeded/RESULTS.txt}; LANES=${2:-3}; FILTER=${3:-.}
cd /verif
: > $OUT.tmp
ls -d seeded/C*-m* | sed 's|seeded/||' | grep -E "$FILTER" > /tmp/matrix.jobs
split -n r/$LANES -d /tmp/matrix.jobs /tmp/matrix.part.
for l in $(seq 0 $((LANES-1))); do
  (
    while read id; do
      p=${id%%-*}
      also=$(grep "^$id " seeded/ALSO.txt 2>/dev/null | cut -d' ' -f2-)
      flock /tmp/mut/lane$((l+1)).lock timeout 2400 tools/mutlane.sh $((l+1)) /verif/seeded/$id/patch.diff quick $p $also 2>&1 | grep -E "exit=|FAILED" | sed "s/^/$id /" >> $OUT.tmp
    done < /tmp/matrix.part.0$l
  ) &
done
wait
sort $OUT.tmp > $OUT; rm -f $OUT.tmp
echo MATRIX-DONE
