#!/bin/bash
# tools/r5matrix.sh <lanes> : every /tmp/r5/Cxx/out/m1[01]/patch.diff against its own property's quick check, in parallel lanes
LANES=${1:-4}; OUT=/tmp/r5/results.txt
ls -d /tmp/r5/C*/out/m1[01] > /tmp/r5/jobs.txt
split -n r/$LANES -d /tmp/r5/jobs.txt /tmp/r5/jobs.part.
for l in $(seq 0 $((LANES-1))); do
  ( while read d; do
      p=$(echo $d | cut -d/ -f4); n=$(basename $d); id=$p-$n
      also=$(grep "^$id " /verif/seeded/ALSO.txt 2>/dev/null | cut -d' ' -f2-)
      flock /tmp/mut/lane$((l+1)).lock timeout 2400 /verif/tools/mutlane.sh $((l+1)) $d/patch.diff quick $p $also 2>&1 | grep -E "exit=|FAILED" | sed "s/^/$id /" >> $OUT
    done < /tmp/r5/jobs.part.0$l ) &
done
wait; echo MATRIX-DONE >> $OUT
