//! `std::fs` facade over the per-node in-memory disk.
use crate::disk::{norm, parent};
use crate::kernel::{self, with};
use std::collections::VecDeque;
use std::ffi::OsString;
use std::io::{self, ErrorKind, Read, Seek, SeekFrom, Write};
use std::path::PathBuf;

fn cur_node() -> u32 {
    let id = kernel::me();
    with(|k| k.node_of(id)).expect("fs access outside of a node context")
}

fn is_node_task() -> bool {
    let id = kernel::me();
    with(|k| k.meta(id).and_then(|m| m.node).is_some())
}

enum Crash {
    No,
    Before,
    After,
}

fn crash_point(node: u32, desc: impl FnOnce() -> String) -> Crash {
    if !is_node_task() {
        return Crash::No;
    }
    with(|k| {
        k.stats.disk_mutations += 1;
        let n = &mut k.nodes[node as usize];
        n.disk_mutations += 1;
        let seq = n.disk_mutations;
        let mut d = None;
        if n.mutation_log.is_some() || n.crash_at.map(|c| c.0 == seq).unwrap_or(false) {
            d = Some(desc());
        }
        if let (Some(log), Some(d)) = (n.mutation_log.as_mut(), d.as_ref()) {
            log.push((seq, d.clone()));
        }
        match n.crash_at {
            Some((s, after)) if s == seq => {
                n.crashed_at = Some((seq, d.unwrap_or_default()));
                if after {
                    Crash::After
                } else {
                    Crash::Before
                }
            }
            _ => Crash::No,
        }
    })
}

fn die(node: u32) -> ! {
    with(|k| {
        k.fault("crash_at_disk_point");
        k.kill_node(node)
    });
    kernel::block_forever()
}

/// Run a mutating disk operation through its crash point.
fn mutating<R>(node: u32, desc: impl FnOnce() -> String, op: impl FnOnce() -> R) -> R {
    match crash_point(node, desc) {
        Crash::No => op(),
        Crash::Before => die(node),
        Crash::After => {
            let _r = op();
            die(node)
        }
    }
}

fn to_str<P: AsRef<std::path::Path>>(p: P) -> String {
    norm(&p.as_ref().to_string_lossy())
}

fn not_found(p: &str) -> io::Error {
    io::Error::new(ErrorKind::NotFound, format!("No such file or directory: {}", p))
}

#[derive(Debug)]
pub struct File {
    node: u32,
    ino: usize,
    /// file offset (shared by `File` and `&File` readers/writers, as with a real descriptor)
    pos: std::sync::atomic::AtomicU64,
    read: bool,
    write: bool,
    append: bool,
    path: String,
}

#[derive(Clone, Debug, Default)]
pub struct OpenOptions {
    read: bool,
    write: bool,
    append: bool,
    create: bool,
    create_new: bool,
    truncate: bool,
}

impl OpenOptions {
    pub fn new() -> Self {
        Self::default()
    }
    pub fn read(&mut self, v: bool) -> &mut Self {
        self.read = v;
        self
    }
    pub fn write(&mut self, v: bool) -> &mut Self {
        self.write = v;
        self
    }
    pub fn append(&mut self, v: bool) -> &mut Self {
        self.append = v;
        self
    }
    pub fn create(&mut self, v: bool) -> &mut Self {
        self.create = v;
        self
    }
    pub fn create_new(&mut self, v: bool) -> &mut Self {
        self.create_new = v;
        self
    }
    pub fn truncate(&mut self, v: bool) -> &mut Self {
        self.truncate = v;
        self
    }
    pub fn open<P: AsRef<std::path::Path>>(&self, path: P) -> io::Result<File> {
        let p = to_str(path);
        let node = cur_node();
        let (exists, parent_ok, is_dir) = with(|k| {
            let d = &k.nodes[node as usize].disk;
            (d.names.contains_key(&p), d.dir_exists(&parent(&p)), d.dir_exists(&p))
        });
        if is_dir {
            return Err(io::Error::new(ErrorKind::Other, format!("Is a directory: {}", p)));
        }
        let writable = self.write || self.append;
        if writable && is_node_task() {
            let injected = with(|k| {
                let n = &mut k.nodes[node as usize];
                if n.fail_open.as_ref().map(|pat| p.contains(pat.as_str())).unwrap_or(false) {
                    n.fail_open = None;
                    k.fault("disk_open_error");
                    true
                } else {
                    false
                }
            });
            if injected {
                return Err(io::Error::new(ErrorKind::Other, format!("No space left on device (injected): {}", p)));
            }
        }
        if !exists {
            if !(self.create || self.create_new) || !writable {
                return Err(not_found(&p));
            }
            if !parent_ok {
                return Err(not_found(&p));
            }
            let ino = mutating(
                node,
                || format!("create {}", p),
                || {
                    // birth time = the node's wall clock (strictly increasing per node unless the
                    // coarse-clock fault is on, in which case files born in one tick tie)
                    let id = kernel::me();
                    with(|k| {
                        let now = k.systime_ns(id);
                        k.nodes[node as usize].disk.create(&p, now)
                    })
                },
            );
            return Ok(File { node, ino, pos: std::sync::atomic::AtomicU64::new(0), read: self.read, write: self.write, append: self.append, path: p });
        }
        if self.create_new {
            return Err(io::Error::new(ErrorKind::AlreadyExists, "File exists"));
        }
        let ino = with(|k| k.nodes[node as usize].disk.names[&p]);
        if self.truncate && writable {
            mutating(
                node,
                || format!("truncate {}", p),
                || with(|k| k.nodes[node as usize].disk.inodes[ino].data.clear()),
            );
        }
        Ok(File { node, ino, pos: std::sync::atomic::AtomicU64::new(0), read: self.read, write: self.write, append: self.append, path: p })
    }
}

impl File {
    pub fn open<P: AsRef<std::path::Path>>(path: P) -> io::Result<File> {
        OpenOptions::new().read(true).open(path)
    }
    pub fn create<P: AsRef<std::path::Path>>(path: P) -> io::Result<File> {
        OpenOptions::new().write(true).create(true).truncate(true).open(path)
    }
    pub fn metadata(&self) -> io::Result<Metadata> {
        Ok(with(|k| {
            let i = &k.nodes[self.node as usize].disk.inodes[self.ino];
            Metadata { len: i.data.len() as u64, created: i.created, dir: false }
        }))
    }
    pub fn sync_all(&self) -> io::Result<()> {
        Ok(())
    }
    pub fn sync_data(&self) -> io::Result<()> {
        Ok(())
    }
    pub fn set_len(&self, size: u64) -> io::Result<()> {
        let (node, ino) = (self.node, self.ino);
        mutating(
            node,
            || format!("set_len {} {}", self.path, size),
            || with(|k| k.nodes[node as usize].disk.inodes[ino].data.resize(size as usize, 0)),
        );
        Ok(())
    }
    fn do_write_at(&self, buf: &[u8], off: u64) -> usize {
        if kernel::tearing_down() {
            // a BufWriter flushed by a destructor while the finished execution is unwound
            return buf.len();
        }
        let (node, ino) = (self.node, self.ino);
        mutating(
            node,
            || format!("write {} off={} len={}", self.path, off, buf.len()),
            || {
                with(|k| {
                    let data = &mut k.nodes[node as usize].disk.inodes[ino].data;
                    let end = off as usize + buf.len();
                    if data.len() < end {
                        data.resize(end, 0);
                    }
                    data[off as usize..end].copy_from_slice(buf);
                })
            },
        );
        buf.len()
    }
    fn len(&self) -> u64 {
        with(|k| k.nodes[self.node as usize].disk.inodes[self.ino].data.len() as u64)
    }
}

impl File {
    fn get_pos(&self) -> u64 {
        self.pos.load(std::sync::atomic::Ordering::Relaxed)
    }
    fn set_pos(&self, p: u64) {
        self.pos.store(p, std::sync::atomic::Ordering::Relaxed)
    }
    fn do_read(&self, buf: &mut [u8]) -> io::Result<usize> {
        if !self.read {
            return Err(io::Error::new(ErrorKind::Other, "Bad file descriptor (not open for reading)"));
        }
        let pos = self.get_pos() as usize;
        let n = with(|k| {
            let data = &k.nodes[self.node as usize].disk.inodes[self.ino].data;
            if pos >= data.len() {
                return 0;
            }
            let n = buf.len().min(data.len() - pos);
            buf[..n].copy_from_slice(&data[pos..pos + n]);
            n
        });
        self.set_pos((pos + n) as u64);
        Ok(n)
    }
    fn do_seek(&self, pos: SeekFrom) -> io::Result<u64> {
        let new = match pos {
            SeekFrom::Start(o) => o as i64,
            SeekFrom::End(o) => self.len() as i64 + o,
            SeekFrom::Current(o) => self.get_pos() as i64 + o,
        };
        if new < 0 {
            return Err(io::Error::new(ErrorKind::InvalidInput, "invalid seek to a negative position"));
        }
        self.set_pos(new as u64);
        Ok(new as u64)
    }
}

impl Read for File {
    fn read(&mut self, buf: &mut [u8]) -> io::Result<usize> {
        self.do_read(buf)
    }
}
impl Read for &File {
    fn read(&mut self, buf: &mut [u8]) -> io::Result<usize> {
        self.do_read(buf)
    }
}

impl File {
    fn do_write(&self, buf: &[u8]) -> io::Result<usize> {
        if !(self.write || self.append) {
            return Err(io::Error::new(ErrorKind::Other, "Bad file descriptor (not open for writing)"));
        }
        if buf.is_empty() {
            return Ok(0);
        }
        if kernel::tearing_down() {
            return Ok(buf.len());
        }
        let off = if self.append { self.len() } else { self.get_pos() };
        let n = self.do_write_at(buf, off);
        self.set_pos(off + n as u64);
        Ok(n)
    }
}

impl Write for File {
    fn write(&mut self, buf: &[u8]) -> io::Result<usize> {
        self.do_write(buf)
    }
    fn flush(&mut self) -> io::Result<()> {
        Ok(())
    }
}
impl Write for &File {
    fn write(&mut self, buf: &[u8]) -> io::Result<usize> {
        self.do_write(buf)
    }
    fn flush(&mut self) -> io::Result<()> {
        Ok(())
    }
}

impl Seek for File {
    fn seek(&mut self, pos: SeekFrom) -> io::Result<u64> {
        self.do_seek(pos)
    }
}
impl Seek for &File {
    fn seek(&mut self, pos: SeekFrom) -> io::Result<u64> {
        self.do_seek(pos)
    }
}

pub trait FileExt {
    fn write_at(&self, buf: &[u8], offset: u64) -> io::Result<usize>;
    fn read_at(&self, buf: &mut [u8], offset: u64) -> io::Result<usize>;
    fn write_all_at(&self, buf: &[u8], offset: u64) -> io::Result<()> {
        self.write_at(buf, offset).map(|_| ())
    }
    fn read_exact_at(&self, mut buf: &mut [u8], mut offset: u64) -> io::Result<()> {
        while !buf.is_empty() {
            match self.read_at(buf, offset) {
                Ok(0) => break,
                Ok(n) => {
                    let tmp = buf;
                    buf = &mut tmp[n..];
                    offset += n as u64;
                }
                Err(e) => return Err(e),
            }
        }
        if !buf.is_empty() {
            Err(io::Error::new(ErrorKind::UnexpectedEof, "failed to fill whole buffer"))
        } else {
            Ok(())
        }
    }
}

impl FileExt for File {
    fn write_at(&self, buf: &[u8], offset: u64) -> io::Result<usize> {
        if !self.write {
            return Err(io::Error::new(ErrorKind::Other, "Bad file descriptor (not open for writing)"));
        }
        // Linux: on a file opened with O_APPEND pwrite appends regardless of the offset.
        let off = if self.append { self.len() } else { offset };
        Ok(self.do_write_at(buf, off))
    }
    fn read_at(&self, buf: &mut [u8], offset: u64) -> io::Result<usize> {
        Ok(with(|k| {
            let data = &k.nodes[self.node as usize].disk.inodes[self.ino].data;
            let pos = offset as usize;
            if pos >= data.len() {
                return 0;
            }
            let n = buf.len().min(data.len() - pos);
            buf[..n].copy_from_slice(&data[pos..pos + n]);
            n
        }))
    }
}

#[derive(Clone, Debug)]
pub struct Metadata {
    len: u64,
    created: u64,
    dir: bool,
}
impl Metadata {
    pub fn len(&self) -> u64 {
        self.len
    }
    pub fn is_dir(&self) -> bool {
        self.dir
    }
    pub fn is_file(&self) -> bool {
        !self.dir
    }
    pub fn created(&self) -> io::Result<crate::stdx::time::SystemTime> {
        Ok(crate::stdx::time::SystemTime::from_ns(self.created))
    }
    pub fn modified(&self) -> io::Result<crate::stdx::time::SystemTime> {
        Ok(crate::stdx::time::SystemTime::from_ns(self.created))
    }
}

pub fn metadata<P: AsRef<std::path::Path>>(path: P) -> io::Result<Metadata> {
    let p = to_str(path);
    let node = cur_node();
    with(|k| {
        let d = &k.nodes[node as usize].disk;
        if let Some(&ino) = d.names.get(&p) {
            let i = &d.inodes[ino];
            Ok(Metadata { len: i.data.len() as u64, created: i.created, dir: false })
        } else if d.dir_exists(&p) {
            Ok(Metadata { len: 4096, created: 0, dir: true })
        } else {
            Err(not_found(&p))
        }
    })
}

pub fn exists(p: &str) -> bool {
    let p = norm(p);
    let node = cur_node();
    with(|k| k.nodes[node as usize].disk.exists(&p))
}

pub fn create_dir_all<P: AsRef<std::path::Path>>(path: P) -> io::Result<()> {
    let p = to_str(path);
    let node = cur_node();
    let present = with(|k| k.nodes[node as usize].disk.dir_exists(&p));
    if !present {
        mutating(node, || format!("mkdir {}", p), || with(|k| k.nodes[node as usize].disk.mkdir_all(&p)));
    }
    Ok(())
}

pub fn create_dir<P: AsRef<std::path::Path>>(path: P) -> io::Result<()> {
    create_dir_all(path)
}

pub fn remove_file<P: AsRef<std::path::Path>>(path: P) -> io::Result<()> {
    let p = to_str(path);
    let node = cur_node();
    let present = with(|k| k.nodes[node as usize].disk.names.contains_key(&p));
    if !present {
        return Err(not_found(&p));
    }
    mutating(node, || format!("unlink {}", p), || with(|k| k.nodes[node as usize].disk.unlink(&p)));
    Ok(())
}

pub fn rename<P: AsRef<std::path::Path>, Q: AsRef<std::path::Path>>(from: P, to: Q) -> io::Result<()> {
    let f = to_str(from);
    let t = to_str(to);
    let node = cur_node();
    let (present, parent_ok) = with(|k| {
        let d = &k.nodes[node as usize].disk;
        (d.names.contains_key(&f), d.dir_exists(&parent(&t)))
    });
    if !present || !parent_ok {
        return Err(not_found(&f));
    }
    mutating(node, || format!("rename {} -> {}", f, t), || with(|k| k.nodes[node as usize].disk.rename(&f, &t)));
    Ok(())
}

pub fn read<P: AsRef<std::path::Path>>(path: P) -> io::Result<Vec<u8>> {
    let mut f = File::open(path)?;
    let mut v = Vec::new();
    f.read_to_end(&mut v)?;
    Ok(v)
}

pub fn read_to_string<P: AsRef<std::path::Path>>(path: P) -> io::Result<String> {
    let mut f = File::open(path)?;
    let mut v = String::new();
    f.read_to_string(&mut v)?;
    Ok(v)
}

pub fn write<P: AsRef<std::path::Path>, C: AsRef<[u8]>>(path: P, contents: C) -> io::Result<()> {
    let mut f = File::create(path)?;
    f.write_all(contents.as_ref())
}

#[derive(Debug)]
pub struct DirEntry {
    node: u32,
    dir: String,
    name: String,
}
impl DirEntry {
    pub fn file_name(&self) -> OsString {
        OsString::from(self.name.clone())
    }
    pub fn path(&self) -> PathBuf {
        if self.dir.is_empty() {
            PathBuf::from(self.name.clone())
        } else {
            PathBuf::from(format!("{}/{}", self.dir, self.name))
        }
    }
    pub fn metadata(&self) -> io::Result<Metadata> {
        let p = self.path().to_string_lossy().to_string();
        let node = self.node;
        with(|k| {
            let d = &k.nodes[node as usize].disk;
            if let Some(&ino) = d.names.get(&p) {
                let i = &d.inodes[ino];
                Ok(Metadata { len: i.data.len() as u64, created: i.created, dir: false })
            } else if d.dir_exists(&p) {
                Ok(Metadata { len: 4096, created: 0, dir: true })
            } else {
                Err(not_found(&p))
            }
        })
    }
}

#[derive(Debug)]
pub struct ReadDir {
    entries: VecDeque<DirEntry>,
}
impl Iterator for ReadDir {
    type Item = io::Result<DirEntry>;
    fn next(&mut self) -> Option<Self::Item> {
        self.entries.pop_front().map(Ok)
    }
}

/// Directory listing order is unspecified on real file systems: the simulator shuffles it with
/// the run's PRNG so code that depends on it is exercised under different orders.
pub fn read_dir<P: AsRef<std::path::Path>>(path: P) -> io::Result<ReadDir> {
    let p = to_str(path);
    let node = cur_node();
    with(|k| {
        let d = &k.nodes[node as usize].disk;
        if !d.dir_exists(&p) {
            return Err(not_found(&p));
        }
        let mut names = d.list(&p);
        k.rng.shuffle(&mut names);
        Ok(ReadDir { entries: names.into_iter().map(|name| DirEntry { node, dir: p.clone(), name }).collect() })
    })
}
